#!/bin/bash
# runs the thorough tier of every check (or the ones named) with evidence written to evidence_thorough/
cd /verif
IDS=${@:-C01 C02 C03 C04 C05 C06 C07 C08 C09 C10 C11 C12 C13 C14 C15 C16 C17 C18 C19 C20}
for c in $IDS; do
  /usr/bin/time -f "$c wall=%es" env VERIF_EVIDENCE_DIR=/verif/evidence_thorough nice -n 5 ./check $c thorough 2>&1 | grep -v "^KNOWN\|WARNING" | tail -3
done
