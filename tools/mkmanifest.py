#!/venv/bin/python
"""Regenerate MANIFEST.json from the table below (kept in one place so that it stays valid)."""
import json, os, sys
ROOT = os.path.dirname(os.path.dirname(os.path.abspath(__file__)))
sys.path.insert(0, ROOT)
from tools.manifest_table import CHECKS, ENGINES, NOT_APPLICABLE, HOOK_COMMITS

ALL = ['C%02d' % i for i in range(1, 21)]
checks = []
for pid in ALL:
    c = CHECKS.get(pid)
    if not c:
        continue
    checks.append({
        'property_id': pid,
        'quick_cmd': './check %s quick' % pid,
        'thorough_cmd': './check %s thorough' % pid,
        'evidence_file': 'evidence/%s.json' % pid,
        'replay_cmd_template': './check %s --replay {path}' % pid,
        'engine': c['engine'],
        'technique': c['technique'],
        'level_claimed': {'category': c.get('category', 'model_checking'), 'text': c['text'],
                          'design_ref': 'DESIGN.md 3/%s' % pid},
        'level_note': c['note'],
    })
na = []
for pid in ALL:
    if pid not in CHECKS:
        na.append({'property_id': pid,
                   'reason': NOT_APPLICABLE.get(pid, 'check not built yet in this round (designed in DESIGN.md 3/%s); not claimed until it runs' % pid)})
m = {
    'version': 1,
    'setup_cmd': 'cd /verif && /venv/bin/python -m vf.selftest',
    'hooks': {
        'guard': 'SOURCER_VERIF',
        'enable': "no hooks needed: checks import /repo's working tree directly (sys.path[0]=/repo) in fresh worker processes; SOURCER_VERIF=1 is exported by ./check but nothing in /repo reads it",
        'baseline_off_cmd': 'cd /repo && /venv/bin/python -m pytest -ra -q -p no:cacheprovider --timeout=900 --continue-on-collection-errors',
        'source_commits': HOOK_COMMITS,
        'add_only': True,
    },
    'engines': ENGINES,
    'checks': checks,
    'not_applicable': na,
    'notes': 'All checks are bounded-exhaustive explorations (model checking family); see DESIGN.md. known_findings.json lists recorded defects (open) and repaired ones (fixed).',
}
for e in m['engines']:
    e['serves_properties'] = [p for p in ALL if p in CHECKS and CHECKS[p]['engine'] == e['name']]
with open(os.path.join(ROOT, 'MANIFEST.json'), 'w') as f:
    json.dump(m, f, indent=1)
print('MANIFEST.json written:', len(checks), 'checks,', len(na), 'not applicable')
