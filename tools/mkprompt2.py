#!/venv/bin/python
"""second-wave prompt: same as the first plus the list of changes earlier agents already produced (to be avoided)"""
import json,sys,glob,os,subprocess
pid, n = sys.argv[1], sys.argv[2]
d = '/tmp/wt/' + pid + 'b'
base = subprocess.run(['/venv/bin/python','/verif/tools/mkprompt.py',pid,n,d],capture_output=True,text=True).stdout
prev=[]
for m in sorted(glob.glob('/verif/seeded/%s-*/meta.agent.json'%pid)):
    try: a=json.load(open(m)); prev.append('- '+a.get('summary','')[:400])
    except Exception: pass
extra = '\n\nEARLIER VOLUNTEERS ALREADY PRODUCED THE FOLLOWING CHANGES FOR THIS PROPERTY. Do NOT repeat them or close variants of them (same mechanism in the same function); find different mechanisms, ideally in different files, and prefer changes that need MORE specific circumstances to manifest (a rarer combination of constructs, a boundary value, a longer sequence of operations, an interaction of two features, a particular nesting depth, unusual but legal input characters, a second grammar or module):\n' + '\n'.join(prev) + '\n'
print(base.replace('YOUR TASK:', extra + '\nYOUR TASK:'))
