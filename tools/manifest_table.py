HOOK_COMMITS = []
ENGINES = [
    {'name': 'E1', 'path': 'vf/e1.py',
     'kind_free_text': 'explicit-state exploration: bounded-exhaustive enumeration of grammars x inputs x entry points x offsets; every case is one model trace (reference interpreter vf/model.py) validated against the real Grammar()/parse'},
]
NOT_APPLICABLE = {}
CHECKS = {
 'C01': dict(engine='E1',
   technique='explicit enumeration of all expressions with <=2 (thorough: <=3) operators x all inputs of length <=4/5; reference-model trace vs implementation on every case',
   text='Every well-formed expression over 11 leaves and 11 constructors up to the operator bound, in text and bytes mode, is compiled by the real generator and run on every input up to the length bound; each run is compared (value and consumed prefix) with a definitional PEG interpreter. Exhaustive within the stated bounds, which contain every parent/child (thorough: grandparent) combination the generator can distinguish.',
   note='Trusted: CPython re/str, the reference interpreter (self-checked by setup). Bounds: operator count, leaf alphabet, input length; error positions are not compared here (C09).'),
}
