HOOK_COMMITS = []
ENGINES = [
    {'name': 'E1', 'path': 'vf/e1.py',
     'kind_free_text': 'explicit-state exploration: bounded-exhaustive enumeration of grammars x inputs x entry points x offsets; every case is one model trace (reference interpreter vf/model.py) validated against the real Grammar()/parse'},
]
NOT_APPLICABLE = {}
CHECKS = {
 'C01': dict(engine='E1',
   technique='explicit enumeration of all expressions with <=2 (thorough: <=3) operators x all inputs of length <=4/5; reference-model trace vs implementation on every case',
   text='Every well-formed expression over 11 leaves and 11 constructors up to the operator bound, in text and bytes mode, is compiled by the real generator and run on every input up to the length bound; each run is compared (value and consumed prefix) with a definitional PEG interpreter. Exhaustive within the stated bounds, which contain every parent/child (thorough: grandparent) combination the generator can distinguish.',
   note='Trusted: CPython re/str, the reference interpreter (self-checked by setup). Bounds: operator count, leaf alphabet, input length; error positions are not compared here (C09).'),
 'C02': dict(engine='E1',
   technique='explicit enumeration of all operator tables with <=2 (thorough: 3) rows x all token strings of length <=6; scan + Pratt reference trace vs implementation on every case',
   text='All tables over 31 row types (every kind x operator lists that share spellings or are prefixes of one another, plus a mixfix row), operand given as rule and as literal, are compiled and run on every token string (well-formed, truncated or garbage) up to the bound; tree and end position are compared with the reference (flat PEG scan + Pratt builder, itself cross-checked against a declarative tree filter), and the in-order reading of the implementation tree must equal the consumed text.',
   note='Trusted: reference operator-table semantics of DESIGN appendix A (reading: PEG-greedy, committed left to right). Bounds: rows, operator spellings {+,-,++}, input length.'),
 'C03': dict(engine='E1',
   technique='explicit enumeration of bound forms / Sep option vectors x elements x separators x enclosing contexts x all inputs of length <=5/6; reference-model trace vs implementation',
   text='Every static bound 0<=m<=n<=3 (operator and constructor spelling), data-dependent bounds from let names, template parameters, class fields and inline Python, and all 12 admissible Sep option vectors x 3 separators, over 4 element kinds, each placed in 8 enclosing contexts, run on all inputs up to the bound and compared with the reference interpreter (value, consumed prefix, failure).',
   note='Trusted: reference interpreter. {1,k} with run-time k=0 (min>max) is treated as ill-formed like its static counterpart which List() rejects.'),
}
