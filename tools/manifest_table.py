HOOK_COMMITS = []
ENGINES = [
    {'name': 'E1', 'path': 'vf/e1.py',
     'kind_free_text': 'explicit-state exploration: bounded-exhaustive enumeration of grammars x inputs x entry points x offsets; every case is one model trace (reference interpreter vf/model.py) validated against the real Grammar()/parse'},
]
NOT_APPLICABLE = {}
CHECKS = {
 'C01': dict(engine='E1',
   technique='explicit enumeration of all expressions with <=2 (thorough: <=3) operators x all inputs of length <=4/5; reference-model trace vs implementation on every case',
   text='Every well-formed expression over 11 leaves and 11 constructors up to the operator bound, in text and bytes mode, is compiled by the real generator and run on every input up to the length bound; each run is compared (value and consumed prefix) with a definitional PEG interpreter. Exhaustive within the stated bounds, which contain every parent/child (thorough: grandparent) combination the generator can distinguish.',
   note='Trusted: CPython re/str, the reference interpreter (self-checked by setup). Bounds: operator count, leaf alphabet, input length; error positions are not compared here (C09).'),
 'C02': dict(engine='E1',
   technique='explicit enumeration of all operator tables with <=2 (thorough: 3) rows x all token strings of length <=6; scan + Pratt reference trace vs implementation on every case',
   text='All tables over 31 row types (every kind x operator lists that share spellings or are prefixes of one another, plus a mixfix row), operand given as rule and as literal, are compiled and run on every token string (well-formed, truncated or garbage) up to the bound; tree and end position are compared with the reference (flat PEG scan + Pratt builder, itself cross-checked against a declarative tree filter), and the in-order reading of the implementation tree must equal the consumed text.',
   note='Trusted: reference operator-table semantics of DESIGN appendix A (reading: PEG-greedy, committed left to right). Bounds: rows, operator spellings {+,-,++}, input length.'),
 'C03': dict(engine='E1',
   technique='explicit enumeration of bound forms / Sep option vectors x elements x separators x enclosing contexts x all inputs of length <=5/6; reference-model trace vs implementation',
   text='Every static bound 0<=m<=n<=3 (operator and constructor spelling), data-dependent bounds from let names, template parameters, class fields and inline Python, and all 12 admissible Sep option vectors x 3 separators, over 4 element kinds, each placed in 8 enclosing contexts, run on all inputs up to the bound and compared with the reference interpreter (value, consumed prefix, failure).',
   note='Trusted: reference interpreter. {1,k} with run-time k=0 (min>max) is treated as ill-formed like its static counterpart which List() rejects.'),
 'C07': dict(engine='E1',
   technique='explicit enumeration of multi-reference start expressions x rule-body menus x all inputs <=4, plus exponential families to nesting depth 40/80; zero-width inline-Python probes count evaluations per <rule, position> on the real parser',
   text='Every start expression with <=2 operators that mentions a rule at least twice (so every way of reaching one rule from several alternatives, sequence positions, lookaheads, repetitions and Longest branches at one position occurs) x 9 (thorough 36) rule-body combinations x all inputs: evaluation count per <rule, position> must be <=1, total <= rules x (n+1), repeated results must be the same object, and the outcome must equal the memoised reference model (which is itself checked equal to the un-memoised model). Families with exponential un-memoised cost must terminate within budget at depth 40/80.',
   note='Trusted: the probe is zero-width; reference interpreter. The set of positions at which a rule is evaluated is deliberately not compared (speculative or pruned evaluation would still satisfy the statement).'),
 'C08': dict(engine='E1',
   technique='explicit enumeration of grammars x every rule/class entry point x all inputs <=4 (incl. empty) x every start offset x both fullparse values; three-outcome rule derived from the reference model, plus shift invariance checked on the implementation',
   text='Every expression with <=1 (thorough <=2) operators plus class, zero-width and class-as-start variants; each rule and class used as entry (module parse, R.parse, C.parse); every input incl. the empty one, every offset, both fullparse values. The outcome must be exactly RET(value) / PartialParseError(value, end) / ParseError as the model dictates (spans included), never another exception, and parsing text from k must equal parsing text[k:] from 0 shifted by k.',
   note='Trusted: reference interpreter. ParseError index is not compared against the model here (C09 constrains it); shift invariance skipped for grammars with Backtrack.'),
 'C09': dict(engine='E1',
   technique='(a) every error raised in exhaustively enumerated multi-line / bytes / lookbehind / operator-table / list universes is checked; (b) exhaustive grid of error-line length x error column x surrounding lines for the excerpt and caret',
   text='All errors of ~2000 enumerated grammars x all inputs x all offsets are checked for index range, token-level reachability bound, line/column arithmetic and None-at-end-of-input; the excerpt grid covers every error-line length 0..230 (thorough 460) x every column x 5 prefixes x 4 suffixes x ParseError/PartialParseError (+ bytes), checking the caret stands under text[index] and the excerpt stays on one line. Exhaustive within the grid.',
   note='Trusted: reading of "first character no token can match" as token-level reachability (an upper bound, demands less). Grid texts use one offending character that is unique in the text.'),
}
