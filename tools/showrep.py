#!/venv/bin/python
import json,sys
for f in sys.argv[1:]:
    r=json.load(open(f))
    print('==',r['sig'])
    for d in r['case']['descs']: print(d.rstrip())
    c=r['case']
    print('  entry',c.get('entry'),'text',repr(c.get('text')),'pos',c.get('pos'),'full',c.get('fullparse'))
    print('  expected',r['expected']); print('  got     ',r['got'])
