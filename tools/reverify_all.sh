#!/bin/bash
# Re-confirm every seeded change against /repo HEAD: patch applies, 52 tests pass with it, demo fails with it and passes
# without it, and the check(s) that are recorded as catching it still do (each check is abandoned at its first violation: VERIF_FAST_FAIL).  Updates seeded/<name>/confirm.json and meta.json.
cd /verif
for D in seeded/*/; do
  N=$(basename $D)
  [ -n "$1" ] && [[ ! "$N" =~ $1 ]] && continue
  CHK=$(/venv/bin/python -c "
import json,sys
try: m=json.load(open('$D/meta.json')); c=m.get('caught_by') or [m.get('property','${N%%-*}')]
except Exception: c=['${N%%-*}']
own='${N%%-*}'
print(','.join([own]+[x for x in c if x!=own][:1]) if own in c else ','.join(c[:2]))")
  SCR=/tmp/scratch_rv_$N
  rm -rf $SCR; git -C /repo worktree prune; git -C /repo worktree add -q --detach $SCR HEAD || continue
  run() { (cd $SCR && ulimit -v 6000000 && PYTHONPATH=$SCR PYTHONDONTWRITEBYTECODE=1 timeout 300 "$@"); }
  run /venv/bin/python /verif/$D/demo.py >/dev/null 2>&1; CLEAN=$?
  if ! (cd $SCR && git apply /verif/$D/patch.diff 2>/dev/null); then echo "$N: PATCH DOES NOT APPLY"; git -C /repo worktree remove --force $SCR; continue; fi
  TESTS=$(run /venv/bin/python -m pytest -q -p no:cacheprovider 2>&1 | tail -1)
  run /venv/bin/python /verif/$D/demo.py >/dev/null 2>&1; MUT=$?
  RESULT=""
  for C in ${CHK//,/ }; do
    OUT=$(VERIF_FAST_FAIL=1 VERIF_REPO=$SCR VERIF_EVIDENCE_DIR=/tmp/ev_rv_$N nice -n 5 timeout 1800 ./check $C quick 2>&1); RC=$?
    RESULT="$RESULT $C:$RC"
  done
  echo "$N: demo clean=$CLEAN mutated=$MUT tests=[$TESTS] checks=[$RESULT ]"
  echo "{\"demo_exit_clean\": $CLEAN, \"demo_exit_mutated\": $MUT, \"tests\": \"$TESTS\", \"checks\": \"$RESULT\", \"tier\": \"quick\", \"base\": \"$(git -C /repo rev-parse --short HEAD)\"}" > $D/confirm.json
  git -C /repo worktree remove --force $SCR; rm -rf /tmp/ev_rv_$N
done
tools/mkseedmeta.py > /dev/null
