#!/bin/bash
# tools/rebase_seed.sh <name> : re-base seeded/<name>/patch.diff onto /repo HEAD with a 3-way apply (keeps the old one as patch.orig.diff)
N=$1; D=/verif/seeded/$N; SCR=/tmp/scratch_rb_$N
rm -rf $SCR; git -C /repo worktree prune; git -C /repo worktree add -q --detach $SCR HEAD || exit 3
cd $SCR
if git apply --3way $D/patch.diff >/tmp/rb_$N.log 2>&1 && ! git diff --name-only --diff-filter=U | grep -q .; then
  git diff HEAD > /tmp/rb_$N.diff
  if [ -s /tmp/rb_$N.diff ]; then cp $D/patch.diff $D/patch.orig.diff; cp /tmp/rb_$N.diff $D/patch.diff; echo "$N: rebased"; else echo "$N: EMPTY DIFF"; fi
else
  echo "$N: CONFLICT"; git diff --name-only --diff-filter=U
fi
cd /; git -C /repo worktree remove --force $SCR
