#!/bin/bash
# tools/tryseed.sh <seed-dir> <name> <check-id>[,<check-id>...] [tier]
# Confirms a seeded change in a scratch worktree (tests pass, demo fails with it and passes without),
# runs the named checks against the scratch copy (VERIF_REPO) and stores the seed under /verif/seeded/<name>/.
set -u
SEED=$1; NAME=$2; CHECKS=$3; TIER=${4:-quick}
SCR=/tmp/scratch_$NAME
rm -rf $SCR; git -C /repo worktree prune; git -C /repo worktree add -q --detach $SCR HEAD || exit 3
cd $SCR
run() { (cd $SCR && ulimit -v 6000000 && PYTHONPATH=$SCR PYTHONDONTWRITEBYTECODE=1 timeout 300 "$@"); }
run /venv/bin/python $SEED/demo.py >/dev/null 2>&1; CLEAN=$?
if ! git apply $SEED/patch.diff 2>/tmp/apply_err_$NAME; then echo "PATCH DOES NOT APPLY: $(head -3 /tmp/apply_err_$NAME)"; git -C /repo worktree remove --force $SCR; exit 4; fi
TESTS=$(run /venv/bin/python -m pytest -q -p no:cacheprovider 2>&1 | tail -1)
run /venv/bin/python $SEED/demo.py >/dev/null 2>&1; MUT=$?
echo "seed $NAME: demo clean=$CLEAN mutated=$MUT tests: $TESTS"
RESULT=""
for C in ${CHECKS//,/ }; do
  OUT=$(cd /verif && VERIF_REPO=$SCR VERIF_EVIDENCE_DIR=/tmp/ev_$NAME timeout 1800 ./check $C $TIER 2>&1)
  RC=$?
  NV=$(echo "$OUT" | grep -c '^VIOLATION')
  echo "  check $C $TIER: exit=$RC violations_lines=$NV :: $(echo "$OUT" | grep '^VIOLATION' | head -2 | sed 's/.*# //' | tr '\n' ';')"
  RESULT="$RESULT $C:$RC"
done
mkdir -p /verif/seeded/$NAME
cp $SEED/patch.diff $SEED/demo.py /verif/seeded/$NAME/ 2>/dev/null
[ -f $SEED/meta.json ] && cp $SEED/meta.json /verif/seeded/$NAME/meta.agent.json
echo "{\"demo_exit_clean\": $CLEAN, \"demo_exit_mutated\": $MUT, \"tests\": \"$TESTS\", \"checks\": \"$RESULT\", \"tier\": \"$TIER\", \"base\": \"$(git -C /repo rev-parse --short HEAD)\"}" > /verif/seeded/$NAME/confirm.json
cd /; git -C /repo worktree remove --force $SCR; rm -rf /tmp/ev_$NAME
