#!/venv/bin/python
"""tools/addfinding.py <id> <property> fixed <commit> "<what failed>"   (manual bookkeeping helper)"""
import json,sys
p='/verif/known_findings.json'
d=json.load(open(p))
fid,prop,status,commit,what=sys.argv[1:6]
e={'id':fid,'property':prop,'status':status}
if status=='fixed':
    e['commit']=commit; e['title']='fixed: property=%s %s %s'%(prop,commit,what)
else:
    e['title']=what; e['cases']=[]
d['findings']=[x for x in d['findings'] if x['id']!=fid]+[e]
json.dump(d,open(p,'w'),indent=1)
print('ok',fid)
