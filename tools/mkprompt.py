#!/venv/bin/python
import json,sys
pid, n = sys.argv[1], sys.argv[2]
d = sys.argv[3] if len(sys.argv) > 3 else '/tmp/wt/' + pid
props = {json.loads(l)['id']: json.loads(l) for l in open('/verif/properties.jsonl')}
p = props[pid]
text = '%s — %s\n\n%s\n\nScope (what it quantifies over): %s' % (pid, p['title'], p['statement'], p['quantifier']['text'])
t = open('/verif/tools/agent_prompt.txt').read()
print(t.replace('@DIR@', d).replace('@PROPERTY@', text).replace('@N@', n).replace('@PID@', pid))
