#!/venv/bin/python
"""Compose /verif/seeded/<name>/meta.json from the agent's meta and our confirmation record."""
import json, os, sys
root='/verif/seeded'
for name in sorted(os.listdir(root)):
    d=os.path.join(root,name)
    if not os.path.isdir(d): continue
    a={}; c={}
    if os.path.exists(d+'/meta.agent.json'):
        try: a=json.load(open(d+'/meta.agent.json'))
        except Exception: a={}
    if os.path.exists(d+'/confirm.json'): c=json.load(open(d+'/confirm.json'))
    old={}
    if os.path.exists(d+'/meta.json'):
        try: old=json.load(open(d+'/meta.json'))
        except Exception: old={}
    caught=[x.split(':')[0] for x in c.get('checks','').split() if x.endswith(':1')]
    missed=[x.split(':')[0] for x in c.get('checks','').split() if x.endswith(':0')]
    m={'property': a.get('property', name.split('-')[0]),
       'summary': a.get('summary',''), 'needs': a.get('needs',''), 'files': a.get('files',[]),
       'origin': 'independent sub-agent given only the property text and a scratch worktree',
       'confirmed': {'repo_tests_with_change': c.get('tests'), 'demo_exit_without_change': c.get('demo_exit_clean'),
                     'demo_exit_with_change': c.get('demo_exit_mutated'), 'base_commit': c.get('base'),
                     'how': 'tools/tryseed.sh: scratch worktree of /repo HEAD, git apply patch.diff, pytest (52 must pass), demo.py, then ./check <id> %s with VERIF_REPO=<scratch>' % c.get('tier','quick')},
       'caught_by': caught, 'missed_by': missed}
    if old.get('notes'): m['notes']=old['notes']
    json.dump(m,open(d+'/meta.json','w'),indent=1)
    print(name, 'caught_by', caught, 'missed_by', missed)
