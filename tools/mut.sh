#!/bin/bash
# tools/mut.sh <name> <check-ids> <file> <old> <new>   : one-off manual mutant (string replace), tests + checks, cleanup
NAME=$1; CHECKS=$2; FILE=$3; OLD=$4; NEW=$5
SCR=/tmp/scratch_m_$NAME
rm -rf $SCR; git -C /repo worktree prune; git -C /repo worktree add -q --detach $SCR HEAD || exit 3
OLD="$OLD" NEW="$NEW" /venv/bin/python - "$SCR/$FILE" <<'PY'
import os,sys
p=sys.argv[1]; s=open(p).read(); old=os.environ['OLD']; new=os.environ['NEW']
assert s.count(old)>=1, 'pattern not found'
open(p,'w').write(s.replace(old,new,1))
PY
[ $? -ne 0 ] && { git -C /repo worktree remove --force $SCR; exit 4; }
TESTS=$(cd $SCR && PYTHONPATH=$SCR PYTHONDONTWRITEBYTECODE=1 timeout 300 /venv/bin/python -m pytest -q -p no:cacheprovider 2>&1 | tail -1)
echo "mutant $NAME: tests: $TESTS"
for C in ${CHECKS//,/ }; do
  OUT=$(cd /verif && VERIF_REPO=$SCR VERIF_EVIDENCE_DIR=/tmp/ev_m_$NAME timeout 1800 ./check $C ${TIER:-quick} 2>&1); RC=$?
  echo "  check $C: exit=$RC :: $(echo "$OUT" | grep '^VIOLATION' | head -3 | sed 's/.*# //' | tr '\n' ';')"
done
(cd $SCR && git diff) > /tmp/mut_$NAME.diff
git -C /repo worktree remove --force $SCR; rm -rf /tmp/ev_m_$NAME
