"""./check <ID> quick|thorough   |   ./check <ID> --replay <path>"""
import importlib
import json
import os
import sys


def main(argv):
    if len(argv) < 2:
        print(__doc__)
        return 2
    prop = argv[1].upper()
    mod = importlib.import_module('vf.props.' + prop.lower())
    if len(argv) >= 4 and argv[2] == '--replay':
        with open(argv[3]) as f:
            rep = json.load(f)
        return mod.replay(rep)
    tier = argv[2] if len(argv) > 2 else os.environ.get('VERIF_TIER', 'quick')
    if tier not in ('quick', 'thorough'):
        tier = 'quick'
    seed = int(os.environ.get('VERIF_SEED', '0') or 0)
    return mod.run(tier, seed)


if __name__ == '__main__':
    sys.exit(main(sys.argv))
