"""E2: the object-graph explorer.  Graphs are described by construction scripts so that every
worker (and every replay) can rebuild a fresh, identical graph: a script is a list of node
specs in creation order, children refer to earlier nodes by index; the root is the last node.

leaf specs:   ('none',) ('int', n) ('str', s) ('dstr', s) ('bool', b) ('nan',)
              'nan' = a float NaN object (unequal to itself under ==; containers compare it by identity first)
              'dstr' = an equal-but-distinct string object built at run time for every node
containers:   ('list', i...) ('tuple', i...) ('dict', (key, i)...)
objects:      ('K0',) ('K1', i) ('K2', i, j) ('Infix', i, j, k) ('Prefix', i, j) ('Postfix', i, j)
"""
import itertools

from . import impl

HOST = '''%s
class K0 { pass "0" }
class K1 { a: "1" }
class K2 { a: "2"; b: "3" }
class M2 { b: "3"; a: "2" }
class L2 { a: "2"; b: "3" }
start = K2
'''

LEAVES = [('none',), ('int', 1), ('str', 'x'), ('dstr', 'xy')]
ARITY = {'K0': 0, 'K1': 1, 'K2': 2, 'M2': 2, 'L2': 2, 'Infix': 3, 'Prefix': 2, 'Postfix': 2}
FIELDS = {'K0': (), 'K1': ('a',), 'K2': ('a', 'b'), 'M2': ('b', 'a'), 'L2': ('a', 'b'), 'Infix': ('left', 'operator', 'right'),
          'Prefix': ('operator', 'right'), 'Postfix': ('left', 'operator')}


def host(named=None):
    b = impl.build(HOST % ('grammar %s' % named if named else ''))
    if b[0] != 'OK':
        raise RuntimeError('host grammar does not compile: %r' % (b,))
    return b[1]


def shapes(kinds):
    """(kind, arity, keys) for every container/object shape"""
    out = []
    for k in kinds:
        if k in ARITY:
            out.append((k, ARITY[k], None))
        elif k == 'list':
            out += [('list', n, None) for n in (0, 1, 2)]
        elif k == 'tuple':
            out += [('tuple', n, None) for n in (1, 2)]
        elif k == 'dict':
            # two insertion orders of the same keys: equal dicts must behave alike
            out += [('dict', 1, ('k',)), ('dict', 2, ('k', 'j')), ('dict', 2, ('j', 'k'))]
    return out


def scripts(max_nodes, kinds, leaves=LEAVES, root_kinds=None):
    """All scripts with at most max_nodes nodes whose root is a container/object; every child slot is
    either a new node (built just before its parent, depth first) or a back-reference to ANY earlier node."""
    shp = shapes(kinds)

    def build(budget, nodes, allowed):
        """yield (nodes', index of new node) for every way to add one new node using <= budget nodes"""
        if budget < 1:
            return
        for lf in leaves:
            yield nodes + [lf], len(nodes)
        for kind, ar, keys in allowed:
            if ar == 0:
                yield nodes + [(kind,)], len(nodes)
                continue
            if budget - 1 < 0:
                continue
            for ns, kids in fill(budget - 1, nodes, ar):
                if keys:
                    spec = (kind,) + tuple(zip(keys, kids))
                else:
                    spec = (kind,) + tuple(kids)
                yield ns + [spec], len(ns)

    def fill(budget, nodes, slots):
        if slots == 0:
            yield nodes, []
            return
        # back references
        for i in range(len(nodes)):
            for ns, rest in fill(budget, nodes, slots - 1):
                yield ns, [i] + rest
        # new node
        for ns, idx in build(budget, nodes, shp):
            used = len(ns) - len(nodes)
            for ns2, rest in fill(budget - used, ns, slots - 1):
                yield ns2, [idx] + rest

    roots = [s for s in shp if root_kinds is None or s[0] in root_kinds]
    for ns, idx in build(max_nodes, [], roots):
        if ns[idx][0] in ('none', 'int', 'str', 'dstr', 'bool', 'bytes', 'nan'):
            continue
        yield tuple(ns)


def construct(script, g):
    """Build the graph; returns list of python objects per node (root = last)."""
    objs = []
    for spec in script:
        k = spec[0]
        if k == 'none':
            v = None
        elif k == 'int':
            v = spec[1]
        elif k == 'bool':
            v = spec[1]
        elif k == 'str':
            v = spec[1]
        elif k == 'bytes':
            v = bytes(bytearray(spec[1]))       # a bytes leaf (a sequence, but not a container of the tree)
        elif k == 'nan':
            v = float('nan')
        elif k == 'dstr':
            v = ''.join(list(spec[1]))          # a fresh, equal string object
        elif k == 'list':
            v = [objs[i] for i in spec[1:]]
        elif k == 'tuple':
            v = tuple(objs[i] for i in spec[1:])
        elif k == 'dict':
            v = {key: objs[i] for key, i in spec[1:]}
        else:
            cls = getattr(g, k)
            v = cls(*[objs[i] for i in spec[1:]])
        objs.append(v)
    return objs


def is_po(g, x):
    return isinstance(x, g.ParsedObject)


def children(g, x):
    if isinstance(x, (list, tuple)):
        return list(enumerate(x))
    if isinstance(x, dict):
        return list(x.items())
    if isinstance(x, g.ParsedObject):
        return [(f, getattr(x, f)) for f in x._fields]
    return []


def ref_eq(g, a, b):
    """Reference structural equality: same class, pairwise equal fields; metadata and identity irrelevant."""
    pa, pb = is_po(g, a), is_po(g, b)
    if pa or pb:
        if not (pa and pb) or type(a) is not type(b):
            return False
        return all(ref_eq(g, getattr(a, f), getattr(b, f)) for f in a._fields)
    if isinstance(a, (list, tuple)):
        return type(a) is type(b) and len(a) == len(b) and all(ref_eq(g, x, y) for x, y in zip(a, b))
    if isinstance(a, dict):
        return isinstance(b, dict) and a.keys() == b.keys() and all(ref_eq(g, a[k], b[k]) for k in a)
    if isinstance(b, (list, tuple, dict)):
        return False
    return a is b or a == b          # like the built-in containers: identity first (a NaN leaf equals itself)


def snapshot(g, x, meta=True):
    """Deep, identity-free snapshot (with metadata) used to detect mutation."""
    if isinstance(x, list):
        return ('L',) + tuple(snapshot(g, y, meta) for y in x)
    if isinstance(x, tuple):
        return ('T',) + tuple(snapshot(g, y, meta) for y in x)
    if isinstance(x, dict):
        return ('D',) + tuple((k, snapshot(g, v, meta)) for k, v in x.items())
    if is_po(g, x):
        m = None
        if meta:
            m = tuple(sorted((k, repr(v)) for k, v in x._metadata._fields.items()))
        return ('O', type(x).__name__, m, tuple((f, snapshot(g, getattr(x, f), meta)) for f in x._fields))
    if isinstance(x, bool):
        return ('B', x)
    if isinstance(x, float) and x != x:
        return ('NAN',)              # snapshots of two builds of one script must compare equal
    return x
