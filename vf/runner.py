"""Supervised process pool.

Why not multiprocessing.Pool: a worker that dies (memory kill during a runaway
parse) makes Pool.map wait forever, and a raising initializer makes it respawn
workers forever.  This runner owns its workers: every chunk has a deadline, a
dead or overdue worker is replaced, its chunk is re-run job by job, and a job
that kills its worker twice is reported as the outcome 'WORKER_DIED' instead of
hanging the check.
"""
import os
import signal
import sys
import time
import traceback
import multiprocessing as mp
from multiprocessing.connection import wait as _wait

NPROC = int(os.environ.get('VERIF_NPROC', '0')) or min(16, os.cpu_count() or 4)
MEM_BYTES = int(float(os.environ.get('VERIF_MEM_GB', '4')) * (1 << 30))


class Timeout(BaseException):
    """Raised inside a worker when a single case exceeds its wall budget."""


def _alarm(signum, frame):
    raise Timeout()


class budget:
    """with budget(seconds): ...   -> raises Timeout inside the block."""

    def __init__(self, seconds):
        self.seconds = seconds

    def __enter__(self):
        signal.setitimer(signal.ITIMER_REAL, self.seconds)

    def __exit__(self, *exc):
        signal.setitimer(signal.ITIMER_REAL, 0)
        return False


def _worker_main(conn, fn, init):
    try:
        try:
            import resource
            soft, hard = resource.getrlimit(resource.RLIMIT_AS)
            lim = MEM_BYTES if hard == resource.RLIM_INFINITY else min(MEM_BYTES, hard)
            resource.setrlimit(resource.RLIMIT_AS, (lim, hard))
        except Exception:
            pass
        signal.signal(signal.SIGALRM, _alarm)
        signal.signal(signal.SIGINT, signal.SIG_IGN)
        state = None
        if init is not None:
            try:
                state = init()
            except BaseException:
                conn.send(('INITERR', traceback.format_exc()))
                return
        conn.send(('READY', None))
        while True:
            msg = conn.recv()
            if msg is None:
                return
            out = []
            for idx, job in msg:
                try:
                    res = fn(job) if state is None else fn(job, state)
                    out.append((idx, 'OK', res))
                except Timeout:
                    signal.setitimer(signal.ITIMER_REAL, 0)
                    out.append((idx, 'JOBTIMEOUT', None))
                except MemoryError:
                    out.append((idx, 'JOBMEMORY', None))
                except BaseException:
                    signal.setitimer(signal.ITIMER_REAL, 0)
                    out.append((idx, 'JOBERROR', traceback.format_exc()))
            conn.send(('DONE', out))
            # a job may ask for this worker to be retired (e.g. it left a runaway thread behind)
            if any(isinstance(r, dict) and r.get('_retire') for _, st_, r in out if st_ == 'OK'):
                return
    except (EOFError, KeyboardInterrupt, BrokenPipeError):
        pass
    finally:
        os._exit(0)


class _Worker:
    def __init__(self, fn, init):
        ctx = mp.get_context('fork')
        self.conn, child = ctx.Pipe()
        self.proc = ctx.Process(target=_worker_main, args=(child, fn, init), daemon=True)
        self.proc.start()
        child.close()
        self.chunk = None
        self.deadline = None
        self.ready = False

    def kill(self):
        try:
            self.proc.kill()
        except Exception:
            pass
        try:
            self.proc.join(2)
        except Exception:
            pass
        try:
            self.conn.close()
        except Exception:
            pass


def run_jobs(fn, jobs, init=None, nproc=None, chunk=8, job_deadline=30.0,
             on_result=None, stop=None, abort=None):
    """Run fn(job) for every job (an iterable) on supervised workers.

    Calls on_result(index, status, result) in the parent for every job, where
    status is OK | JOBTIMEOUT | JOBMEMORY | JOBERROR | WORKER_DIED.  `stop` is an
    optional callable; when it returns True no further jobs are dispatched.
    Returns the number of jobs completed.
    """
    nproc = nproc or NPROC
    it = enumerate(iter(jobs))
    retry = []           # single jobs to re-run alone after their worker died
    exhausted = False
    done = 0
    workers = [_Worker(fn, init) for _ in range(nproc)]

    def next_chunk():
        nonlocal exhausted
        if retry:
            return [retry.pop()], True
        if exhausted or (stop is not None and stop()):
            exhausted = True
            return None, False
        out = []
        for pair in it:
            out.append(pair)
            if len(out) >= chunk:
                break
        if len(out) < chunk:
            exhausted = True
        return (out or None), False

    def give(w):
        ch, is_retry = next_chunk()
        if ch is None:
            w.chunk = None
            return
        w.chunk = (ch, is_retry)
        w.deadline = time.time() + job_deadline * len(ch) + 5
        try:
            w.conn.send(ch)
        except Exception:
            handle_death(w)

    def handle_death(w):
        nonlocal done
        ch = w.chunk
        idxw = workers.index(w)
        w.kill()
        if ch is not None:
            items, is_retry = ch
            if is_retry or len(items) == 1:
                for idx, job in items:
                    done += 1
                    if on_result:
                        on_result(idx, 'WORKER_DIED', None)
            else:
                retry.extend(items)
        nw = _Worker(fn, init)
        workers[idxw] = nw

    try:
        while True:
            busy = [w for w in workers if w.chunk is not None or not w.ready]
            if not busy and exhausted and not retry:
                break
            if abort is not None and abort():
                break               # give up on the jobs in flight as well (their workers are killed below)
            conns = {w.conn: w for w in workers}
            ready = _wait(list(conns), timeout=0.5)
            now = time.time()
            for c in ready:
                w = conns[c]
                try:
                    kind, payload = c.recv()
                except (EOFError, OSError):
                    handle_death(w)
                    continue
                if kind == 'READY':
                    w.ready = True
                    give(w)
                elif kind == 'INITERR':
                    raise RuntimeError('worker initialiser failed:\n' + payload)
                elif kind == 'DONE':
                    retire = False
                    for idx, status, res in payload:
                        done += 1
                        if status == 'OK' and isinstance(res, dict) and res.get('_retire'):
                            retire = True
                        if on_result:
                            on_result(idx, status, res)
                    w.chunk = None
                    if retire:
                        handle_death(w)          # replace the worker; nothing is lost (chunk is None)
                    else:
                        give(w)
            for w in list(workers):
                if w.chunk is not None and w.deadline is not None and now > w.deadline:
                    handle_death(w)
                elif w.chunk is not None and not w.proc.is_alive() and not w.conn.poll():
                    handle_death(w)
            # idle ready workers pick up retries / new work
            for w in workers:
                if w.ready and w.chunk is None and (retry or not exhausted):
                    give(w)
    finally:
        for w in workers:
            try:
                w.conn.send(None)
            except Exception:
                pass
        for w in workers:
            w.kill()
    return done
