"""Render model ASTs / Specs to sourcer's grammar DSL.

`alt` chooses between documented alternative spellings: it is called as
alt(kind, n) with n the pre-order index of the node among nodes that have an
alternative spelling, and returns True for the constructor form.  The default
renders operator forms, fully parenthesised.
"""

import re


def _q(s):
    if isinstance(s, bytes):
        return 'b' + _q(s.decode('latin-1'))
    out = ['"']
    for ch in s:
        if ch == '"':
            out.append('\\"')
        elif ch == '\\':
            out.append('\\\\')
        elif ch == '\n':
            out.append('\\n')
        elif ch == '\t':
            out.append('\\t')
        elif ch == '\r':
            out.append('\\r')
        elif ord(ch) < 32 or ord(ch) > 126:
            out.append('\\x%02x' % ord(ch))
        else:
            out.append(ch)
    out.append('"')
    return ''.join(out)


ALT_KINDS = ('opt', 'star', 'plus', 'right', 'left', 'choice', 'seq', 'sep', 'rep')


class Renderer:
    def __init__(self, alt=None, bytes_mode=False, opbreak=None, parens=False, eq='='):
        self.eq = eq                # '=' | ':' | '=>' wherever a definition token is allowed (rules, class fields, let, keyword arguments)
        self.alt = alt
        self.bytes_mode = bytes_mode
        self.n = 0
        self.opbreak = opbreak      # None | 'before' | 'after': line break around binary operators
        self.parens = parens        # redundant parentheses around composite expressions

    def op(self, sym):
        if self.opbreak == 'before':
            return '\n        %s ' % sym
        if self.opbreak == 'after':
            return ' %s\n        ' % sym
        return ' %s ' % sym

    def r(self, e):
        t = self.r0(e)
        if self.parens and e[0] in ('seq', 'choice', 'right', 'left', 'opt', 'star', 'plus', 'call', 'ref', 'str', 'sep', 'apply', 'where'):
            return '(%s)' % t
        return t

    def use_alt(self, kind):
        if self.alt is None:
            return False
        i = self.n
        self.n += 1
        return bool(self.alt(kind, i))

    def lit(self, s):
        return _q(s)

    def bound(self, b):
        if b is None:
            return ''
        if isinstance(b, tuple):
            return '`%s`' % b[1]
        return str(b)

    def r0(self, e):
        k = e[0]
        R = self.r
        if k == 'str':
            return self.lit(e[1])
        if k == 'stri':
            return self.lit(e[1]) + 'i'
        if k in ('re', 'rei'):
            pat = e[1].decode('ascii') if isinstance(e[1], bytes) else e[1]
            return ('b' if self.bytes_mode else '') + '/%s/' % pat + ('i' if k == 'rei' else '')
        if k == 'byte':
            return '0x%02X' % e[1]
        if k == 'ref':
            return e[1]
        if k == 'super':
            return 'super.%s' % e[1]
        if k == 'fail':
            return 'Fail()' if len(e) == 1 else 'Fail(%s)' % _q(e[1])
        if k == 'back':
            return 'Backtrack(%d)' % e[1]
        if k == 'py':
            return '`%s`' % e[1]
        if k == 'group':
            return '(%s)' % R(e[1])
        if k == 'opt':
            if self.use_alt(k):
                return 'Opt(%s)' % R(e[1])
            return '(%s)?' % R(e[1])
        if k == 'star':
            if self.use_alt(k):
                return 'List(%s)' % R(e[1])
            return '(%s)*' % R(e[1])
        if k == 'plus':
            if self.use_alt(k):
                return 'Some(%s)' % R(e[1])
            return '(%s)+' % R(e[1])
        if k == 'rep':
            m, n = e[2], e[3]
            if self.use_alt(k):
                kw = []
                if m is not None:
                    kw.append('min_len=%s' % self.boundarg(m))
                if n is not None:
                    kw.append('max_len=%s' % self.boundarg(n))
                return 'List(%s)' % ', '.join([R(e[1])] + kw)
            if m is None and n is None:
                op = '*'
            elif n is None:
                op = '{%s,}' % self.bound(m)
            elif m is None:
                op = '{,%s}' % self.bound(n)
            elif m == n:
                op = '{%s}' % self.bound(m)
            else:
                op = '{%s,%s}' % (self.bound(m), self.bound(n))
            return '(%s)%s' % (R(e[1]), op)
        if k == 'expect':
            return 'Expect(%s)' % R(e[1])
        if k == 'expectnot':
            return 'ExpectNot(%s)' % R(e[1])
        if k == 'skip':
            return 'Skip(%s)' % ', '.join(R(x) for x in e[1:])
        if k == 'longest':
            return 'Longest(%s)' % ', '.join(R(x) for x in e[1:])
        if k == 'seq':
            if self.use_alt(k):
                return 'Seq(%s)' % ', '.join(R(x) for x in e[1:])
            return '[%s]' % ', '.join(R(x) for x in e[1:])
        if k in ('right', 'left'):
            if self.use_alt(k):
                return '%s(%s, %s)' % ('Right' if k == 'right' else 'Left', R(e[1]), R(e[2]))
            return '(%s%s%s)' % (R(e[1]), self.op('>>' if k == 'right' else '<<'), R(e[2]))
        if k == 'choice':
            if self.use_alt(k):
                return 'Choice(%s)' % ', '.join(R(x) for x in e[1:])
            return '(%s)' % self.op('|').join(R(x) for x in e[1:])
        if k == 'sep':
            _, el, sp, disc, trail, empty, req = e
            sugar = disc and empty and not req
            if sugar and not self.use_alt(k):
                return '(%s%s%s)' % (R(el), self.op('/?' if trail else '//'), R(sp))
            kw = []
            if not disc:
                kw.append('discard_separators=False')
            if trail:
                kw.append('allow_trailer=True')
            if not empty:
                kw.append('allow_empty=False')
            if req:
                kw.append('require_separator=True')
            return 'Sep(%s)' % ', '.join([R(el), R(sp)] + kw)
        if k == 'let':
            return '(let %s %s %s in %s)' % (e[1], self.eq, R(e[2]), R(e[3]))
        if k == 'where':
            return '(%s%s%s)' % (R(e[1]), self.op('where'), R(e[2]))
        if k == 'apply':
            return '(%s%s%s)' % (R(e[1]), self.op('|>'), R(e[2]))
        if k == 'applyl':
            return '(%s%s%s)' % (R(e[1]), self.op('<|'), R(e[2]))
        if k == 'call':
            a = [R(x) for x in e[2]] + ['%s%s%s' % (kk, self.eq if self.eq != '=' else '=', R(x)) for kk, x in e[3]]
            return '%s(%s)' % (e[1], ', '.join(a))
        if k == 'supercall':
            a = [R(x) for x in e[2]] + ['%s=%s' % (kk, R(x)) for kk, x in e[3]]
            return 'super.%s(%s)' % (e[1], ', '.join(a))
        if k == 'optable':
            rows = []
            for kind, ops in e[2]:
                rows.append('    %s: %s' % (kind, ', '.join(R(o) for o in ops)))
            return '(%s between {\n%s\n})' % (R(e[1]), '\n'.join(rows))
        raise Exception('render: unknown node %r' % (k,))

    def boundarg(self, b):
        # constructor forms read bare inline Python as option values
        if isinstance(b, tuple):
            return '`%s`' % b[1]
        if isinstance(b, str):
            return '`%r`' % b       # a name: passed as its spelling
        return str(b)


def expr(e, alt=None, bytes_mode=False):
    return Renderer(alt, bytes_mode).r(e)


def spec(sp, alt=None, eq='=', sep='\n', opbreak=None, parens=False, comments=False, blank=False,
         ignore_kw=None, bare=False):
    """Render a Spec to a grammar description (layout options: C19)."""
    R = Renderer(alt, sp.bytes_mode, opbreak, parens, eq)
    if bare:
        # a grammar that is just an expression (bare = True, or (text before, text after) the expression);
        # a `grammar <name>` header may precede it
        assert len(sp.rules) == 1 and not sp.ignores
        before, after = ('', '\n') if bare is True else bare
        head = ''
        if sp.name:
            head = 'grammar %s' % sp.name
            if sp.parent_name:
                head += ' extends %s' % sp.parent_name
            head += '\n'
        return head + before + R.r(sp.rules[0][1][2]) + after
    lines = []
    if sp.name:
        head = 'grammar %s' % sp.name
        if sp.parent_name:
            head += ' extends %s' % sp.parent_name
        lines.append(head)
    for code in sp.py:
        lines.append('```\n%s\n```' % code)
    ign = []
    for i, pat in enumerate(sp.ignores):
        style = sp.ignore_style
        if style == 'named':
            ign.append('ignore %s%d %s %s' % (sp.ignore_prefix, i, eq, R.r(pat)))
        elif style == 'named_ignored':
            ign.append('ignored %s%d %s %s' % (sp.ignore_prefix, i, eq, R.r(pat)))
        elif style in ('anon', 'anon_after'):
            ign.append('ignore %s' % R.r(pat))
        elif style == 'anon_ignored':
            ign.append('ignored %s' % R.r(pat))
        else:
            raise Exception(style)
    body = []
    for name, d in sp.rules:
        ps = '(%s)' % ', '.join(d[1]) if d[1] else ''
        if d[0] == 'rule':
            ov = 'override ' if name in sp.overrides else ''
            body.append('%s%s%s %s %s' % (ov, name, ps, eq, R.r(d[2])))
        else:
            ms = []
            for (mn, om, ex) in d[2]:
                if mn:
                    ms.append('    %s%s%s %s' % ('let ' if om else '', mn, ':' if eq == '=' else ' ' + ('=' if eq == ':' else eq), R.r(ex)))
                elif om == 'requires':
                    ms.append('    requires %s' % R.r(ex))
                else:
                    ms.append('    pass %s' % R.r(ex))
            body.append('class %s%s {\n%s\n}' % (name, ps, ('\n' if sep == '\n' else ';\n').join(ms)))
    if ignore_kw:
        ign = [re.sub(r'^ignored?\b', ignore_kw, x) for x in ign]
    head, stmts = lines, (body + ign if sp.ignore_style == 'anon_after' else ign + body)
    glue = sep
    if comments:
        glue = '  # trailing comment\n# a comment line: "not" = a | rule\n' if sep == '\n' else sep
    if blank:
        glue = glue + '\n\n' if sep == '\n' else glue + '\n'
    text = '\n'.join(head) + ('\n' if head else '') + glue.join(stmts) + '\n'
    if comments:
        text = '# leading comment\n' + text + '# last comment'
    return text
