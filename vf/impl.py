"""Driver for the implementation under test (the sourcer working tree)."""
import os
import sys

from .runner import Timeout, budget

REPO = os.environ.get('VERIF_REPO', '/repo')

_sourcer = None


def load():
    """Import sourcer from the working tree under test, never from elsewhere."""
    global _sourcer
    if _sourcer is None:
        if sys.path[0] != REPO:
            sys.path.insert(0, REPO)
        import sourcer
        here = os.path.realpath(os.path.dirname(sourcer.__file__))
        want = os.path.realpath(os.path.join(REPO, 'sourcer'))
        if here != want:
            raise RuntimeError(f'sourcer imported from {here}, expected {want}')
        _sourcer = sourcer
    return _sourcer


def build(desc, include_source=False, time_limit=20.0):
    """Grammar(desc) -> ('OK', module) | ('EXC', type name, message) | ('DIVERGES',)"""
    Grammar = load().Grammar
    try:
        with budget(time_limit):
            return ('OK', Grammar(desc, include_source=include_source))
    except Timeout:
        return ('DIVERGES',)
    except MemoryError:
        return ('EXC', 'MemoryError', '')
    except RecursionError as x:
        return ('EXC', 'RecursionError', str(x)[:80])
    except Exception as x:
        return ('EXC', type(x).__name__, str(x)[:200])


def is_obj(v):
    t = type(v)
    return hasattr(t, '_fields') and hasattr(v, '_metadata') and hasattr(v, '_asdict')


def canon(v, spans=False):
    """Canonical, hashable, type-strict form of an implementation value."""
    if v is None or isinstance(v, (float,)):
        return v
    if isinstance(v, bool):
        return ('B', v)
    if isinstance(v, str):
        return str(v)
    if isinstance(v, bytes):
        return bytes(v)
    if isinstance(v, int):
        return int(v)
    if isinstance(v, list):
        return ('L',) + tuple(canon(x, spans) for x in v)
    if is_obj(v):
        fields = tuple((f, canon(getattr(v, f), spans)) for f in v._fields)
        if spans:
            return ('O', type(v).__name__, fields, span_of(v))
        return ('O', type(v).__name__, fields)
    if isinstance(v, tuple):
        return ('T',) + tuple(canon(x, spans) for x in v)
    if isinstance(v, dict):
        return ('D',) + tuple((canon(k, spans), canon(x, spans)) for k, x in v.items())
    if callable(v):
        return ('FN',)          # function values (inline Python) are compared as opaque
    return ('?', type(v).__name__, repr(v)[:60])


def span_of(obj):
    """('SPAN', start index, end index inclusive, start line, start col, end line, end col)
    or a marker describing a malformed position_info."""
    info = obj._metadata.position_info
    if info is None:
        return None
    try:
        s, e = info.start, info.end
        return ('SPAN', s.index, e.index, s.line, s.column, e.line, e.column)
    except AttributeError:
        return ('RAWSPAN', repr(info)[:60])


def run(parse, text, pos=0, fullparse=True, spans=False, time_limit=1.0, raw=False, patient=False):
    """(see _run1)  With patient=True a DIVERGES outcome is only believed after a second run with a budget of at
    least 30 s: a loaded machine must never turn into an alarm.  Only for calls that may be repeated."""
    out = _run1(parse, text, pos, fullparse, spans, time_limit, raw)
    if patient and out['kind'] == 'DIVERGES' and time_limit is not None:
        budget2 = max(30.0, time_limit * 30) if patient is True else float(patient)
        out = _run1(parse, text, pos, fullparse, spans, budget2, raw)
    return out


def _run1(parse, text, pos=0, fullparse=True, spans=False, time_limit=1.0, raw=False):
    """Run one parse call; returns a dict describing the complete observable outcome.

    kind: RET | PARTIAL | ERROR | EXC | DIVERGES
    """
    mod = sys.modules.get(getattr(parse, '__module__', None))
    if time_limit is None:
        # no wall budget (signals reach the main thread only): the caller supervises termination itself
        import contextlib
        guard = contextlib.nullcontext()
    else:
        guard = budget(time_limit)
    try:
        with guard:
            try:
                v = parse(text, pos, fullparse)
                out = {'kind': 'RET', 'value': v if raw else canon(v, spans)}
            except Exception as x:
                name = type(x).__name__
                if name == 'PartialParseError' and hasattr(x, 'last_position'):
                    lp = x.last_position
                    out = {'kind': 'PARTIAL',
                           'value': x.partial_result if raw else canon(x.partial_result, spans),
                           'index': lp.index, 'line': lp.line, 'column': lp.column,
                           'message': str(x)}
                elif name == 'ParseError' and hasattr(x, 'position'):
                    p = x.position
                    out = {'kind': 'ERROR', 'index': p.index, 'line': p.line,
                           'column': p.column, 'message': str(x)}
                elif isinstance(x, MemoryError):
                    out = {'kind': 'EXC', 'type': 'MemoryError', 'message': ''}
                else:
                    out = {'kind': 'EXC', 'type': name, 'message': str(x)[:160]}
    except Timeout:
        out = {'kind': 'DIVERGES'}
    return out


def simple(out):
    """('OK', value, end) | ('FAIL',) | ('EXC', type, msg) | ('DIVERGES',) given the text length
    is not needed: RET reports end=None (caller substitutes len(text))."""
    k = out['kind']
    if k == 'RET':
        return ('OK', out['value'], None)
    if k == 'PARTIAL':
        return ('OK', out['value'], out['index'])
    if k == 'ERROR':
        return ('FAIL',)
    if k == 'EXC':
        return ('EXC', out['type'], out['message'])
    return ('DIVERGES',)


def entry(mod, name):
    """Resolve an entry point: None -> module parse; 'R' -> mod.R.parse"""
    if name is None:
        return mod.parse
    return getattr(mod, name).parse


def uninstall(name):
    """Remove an installed named grammar (and dotted parents created for it)."""
    parts = name.split('.')
    for i in range(len(parts), 0, -1):
        sys.modules.pop('.'.join(parts[:i]), None)


REGEN = r"""
import hashlib, json, sys
sys.path.insert(0, sys.argv[1])
from sourcer import Grammar
out = []
for d in json.load(sys.stdin):
    try:
        g = Grammar(d, include_source=True)
        out.append(hashlib.sha1(g._source_code.encode()).hexdigest())
    except Exception as x:
        out.append('EXC:' + type(x).__name__)
    name = getattr(g, '__name__', None)
    if name and name != 'grammar':
        sys.modules.pop(name, None)
json.dump(out, sys.stdout)
"""


def source_hashes_in_fresh_interpreter(descs, hashseed):
    """sha1 of the source generated for each description by a fresh interpreter started with another
    PYTHONHASHSEED (the generated text must not depend on set / dict iteration order)"""
    import json
    import subprocess
    env = dict(os.environ)
    env['PYTHONHASHSEED'] = str(hashseed)
    env['PYTHONDONTWRITEBYTECODE'] = '1'
    env.pop('PYTHONPATH', None)
    p = subprocess.run([sys.executable, '-c', REGEN, REPO], input=json.dumps(descs), capture_output=True, text=True,
                       timeout=600, env=env)
    if p.returncode != 0:
        return ['SUBPROCESS-FAILED: ' + p.stderr[-200:]] * len(descs)
    return json.loads(p.stdout)
