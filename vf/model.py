"""Reference model: a definitional big-step interpreter for sourcer's grammar language.

Written from README / docs / PEG semantics, not from the generator.  It does not
import sourcer.  AST nodes are tuples (see render.py for the concrete syntax):

  ('str', s) ('stri', s) ('re', p) ('rei', p) ('byte', n) ('ref', name) ('super', name)
  ('fail',) ('back', n) ('py', code)
  ('opt', e) ('star', e) ('plus', e) ('rep', e, m, n) ('expect', e) ('expectnot', e)
  ('skip', e...) ('seq', e...) ('choice', e...) ('longest', e...)
  ('right', a, b) ('left', a, b) ('where', e, p) ('apply', e, f) ('applyl', f, e)
  ('sep', el, sp, discard, trailer, empty, require)
  ('let', name, e, body) ('call', name, [args], [(kw, arg)])
  ('optable', operand, [(kind, [ops])])       kind: left right infix prefix postfix mixfix
  ('group', e)   redundant parentheses (rendering only)

A grammar is a Spec; a chain of extension is a list of Specs, base first.
"""
import re


class IllFormed(Exception):
    """The case is outside the quantifier of the properties (zero-progress
    repetition, left recursion, value used as parser...).  Never compared."""


FAIL = None


class Obj:
    __slots__ = ('cls', 'fields', 'span')

    def __init__(self, cls, fields, span=None):
        self.cls = cls
        self.fields = tuple(fields)
        self.span = span

    def __eq__(self, other):
        return isinstance(other, Obj) and self.cls == other.cls and self.fields == other.fields

    def __ne__(self, other):
        return not self.__eq__(other)

    def __hash__(self):
        try:
            return hash((self.cls, self.fields))
        except TypeError:
            return hash(self.cls)

    def __getattr__(self, name):
        for k, v in object.__getattribute__(self, 'fields'):
            if k == name:
                return v
        raise AttributeError(name)

    def __repr__(self):
        return '%s(%s)' % (self.cls, ', '.join('%s=%r' % kv for kv in self.fields))


class Closure:
    """A by-name parsing-expression argument (closed over the call-site scope).
    A string / byte literal argument is both a parser and a value."""
    __slots__ = ('expr', 'env', 'lvl', 'lit')

    def __init__(self, expr, env, lvl, lit=None):
        self.expr = expr
        self.env = env
        self.lvl = lvl
        self.lit = lit

    def __eq__(self, other):
        if self.lit is not None:
            o = other.lit if isinstance(other, Closure) else other
            return self.lit == o
        return self is other

    def __ne__(self, other):
        return not self.__eq__(other)

    def __hash__(self):
        return hash(self.lit) if self.lit is not None else id(self)

    def __repr__(self):
        return repr(self.lit) if self.lit is not None else '<parser>'

    # behave like the literal value inside inline Python
    def __len__(self):
        return len(self.lit)

    def __str__(self):
        return str(self.lit)


class Spec:
    def __init__(self, rules, ignores=(), start='start', name=None, py=(), bytes_mode=False,
                 ignore_style='named', parent_name=None):
        self.rules = list(rules)            # [(name, def)] in declaration order
        self.ruledict = dict(self.rules)
        self.ignores = list(ignores)        # [expr] patterns
        self.start = start
        self.name = name
        self.py = list(py)
        self.bytes_mode = bytes_mode
        self.ignore_style = ignore_style    # rendering only
        self.parent_name = parent_name
        self.overrides = ()                 # rendering only: rules marked `override`
        self.ignore_prefix = 'Ig'           # rendering only: names of named ignore rules

    def astuple(self):
        return (tuple(self.rules), tuple(self.ignores), self.start, self.name, tuple(self.py),
                self.bytes_mode, self.ignore_style, self.parent_name)


class Counters:
    __slots__ = ('states', 'transitions', 'restores', 'memo_hits')

    def __init__(self):
        self.states = 0
        self.transitions = 0
        self.restores = 0      # a sub-failure after progress followed by another attempt
        self.memo_hits = 0


_RE_CACHE = {}


def _rx(pat, flags, as_bytes):
    key = (pat, flags, as_bytes)
    r = _RE_CACHE.get(key)
    if r is None:
        p = pat.encode('ascii') if as_bytes and isinstance(pat, str) else pat
        r = _RE_CACHE[key] = re.compile(p, flags)
    return r


class Model:
    """Evaluate a chain of Specs (base first).  `memoize=False` gives the
    un-memoised semantics (used for self-checks and for C07's non-triviality)."""

    def __init__(self, mods, memoize=True, counters=None, tick=None, deviations=()):
        if isinstance(mods, Spec):
            mods = [mods]
        self.mods = mods
        self.top = len(mods) - 1
        self.memoize = memoize
        self.c = counters or Counters()
        self.tick = tick
        self.dev = set(deviations)
        self.bytes_mode = mods[0].bytes_mode
        self.pyglobals = {}
        for m in mods:
            for code in m.py:
                exec(code, self.pyglobals)
        # which levels see an ignore declaration (own or inherited)
        self.sees_ignore = []
        seen = False
        for m in mods:
            seen = seen or bool(m.ignores)
            self.sees_ignore.append(seen)
        self.spans = []

    # -- name resolution -------------------------------------------------
    def lookup(self, name, from_level):
        for i in range(from_level, -1, -1):
            d = self.mods[i].ruledict.get(name)
            if d is not None:
                return i, d
        raise IllFormed('unknown rule %s' % name)

    def all_ignores(self):
        out = []
        for i in range(self.top, -1, -1):
            m = self.mods[i]
            for j, e in enumerate(m.ignores):
                if m.ignore_style.startswith('named'):
                    # `ignore Name = pattern` defines a rule: a more derived grammar that defines a rule of that
                    # name overrides what is skipped (late binding, like every other rule)
                    name = '%s%d' % (m.ignore_prefix, j)
                    for k in range(self.top, i, -1):
                        d = self.mods[k].ruledict.get(name)
                        if d is not None and d[0] == 'rule' and not d[1]:
                            e, i2 = d[2], k
                            break
                    else:
                        i2 = i
                    out.append((i2, e))
                else:
                    out.append((i, e))
        return out

    # -- entry -----------------------------------------------------------
    def parse(self, entry, text, pos=0, through=None, args=()):
        """Run rule `entry` (looked up from module level `through`, default most derived); `args` are
        Python values for a parameterised class used as entry point: C.parse(*args)(text)."""
        self.text = text
        self.memo = {}
        self.active = set()
        self.depth = 0
        lvl = self.top if through is None else through
        return self.call_rule(entry, tuple(args), {}, pos, lvl)

    def skip(self, pos):
        pats = self.all_ignores()
        while True:
            for lvl, pat in pats:
                # literals inside ignore patterns are literals of the grammar too:
                # each is followed by a (nested) skip of its own
                r = self.ev(pat, pos, {}, lvl)
                if r is not FAIL and r[1] > pos:
                    pos = r[1]
                    break
            else:
                return pos

    def call_rule(self, name, args, kwargs, pos, from_level):
        lvl, d = self.lookup(name, from_level)
        return self.invoke(lvl, name, d, args, kwargs, pos)

    def invoke(self, lvl, name, d, args, kwargs, pos):
        params = d[1]
        plain = not params and not args and not kwargs
        key = (lvl, name, pos)
        if plain:
            if self.memoize and key in self.memo:
                self.c.memo_hits += 1
                return self.memo[key]
            if key in self.active:
                raise IllFormed('left recursion')
            self.active.add(key)
        self.depth += 1
        if self.depth > 400:
            raise IllFormed('model recursion too deep')
        try:
            if self.tick is not None and plain:
                self.tick(name, pos)
            env = {}
            if params:
                if len(args) > len(params):
                    raise IllFormed('too many arguments')
                for p, a in zip(params, args):
                    env[p] = a
                for k, v in kwargs.items():
                    if k not in params or k in env:
                        raise IllFormed('bad keyword')
                    env[k] = v
                if len(env) != len(params):
                    raise IllFormed('missing arguments')
            is_start = (name.lower() == 'start' and self.sees_ignore[lvl]
                        and self._is_start_rule(lvl, name))
            if d[0] == 'rule':
                p = self.skip(pos) if is_start else pos
                r = self.ev(d[2], p, env, lvl)
            else:
                r = self.run_class(lvl, name, d, env, pos, is_start)
        finally:
            self.depth -= 1
            if plain:
                self.active.discard(key)
        if plain and self.memoize:
            self.memo[key] = r
        return r

    def _is_start_rule(self, lvl, name):
        for n, _ in self.mods[lvl].rules:
            if n.lower() == 'start':
                return n == name
        return False

    def run_class(self, lvl, name, d, env, pos, is_start):
        p = pos
        fields = []
        first = True
        for (mname, omitted, expr) in d[2]:
            if first and is_start:
                p = self.skip(p)
            first = False
            if omitted == 'requires':
                # `requires E`: E is a Python expression over the fields so far
                code = expr[1] if expr[0] == 'py' else None
                if code is None:
                    raise IllFormed('requires needs inline Python')
                if not self.pyeval(code, env):
                    return FAIL
                continue
            r = self.ev(expr, p, env, lvl)
            if r is FAIL:
                return FAIL
            p = r[1]
            if mname:
                env[mname] = r[0]
                if not omitted:
                    fields.append((mname, r[0]))
        obj = Obj(name, fields, (pos, p))
        return (obj, p)

    # -- helpers -----------------------------------------------------------
    def pyeval(self, code, env):
        d = dict(self.pyglobals)
        d.update(env)
        return eval(code, d)

    def argval(self, a, env, lvl):
        k = a[0]
        if k == 'group':
            return self.argval(a[1], env, lvl)
        if k == 'py':
            return self.pyeval(a[1], env)
        if k == 'ref' and a[1] in env:
            return env[a[1]]
        if k == 'str':
            return Closure(a, env, lvl, lit=a[1])
        if k == 'byte':
            return Closure(a, env, lvl, lit=a[1])
        return Closure(a, env, lvl)

    def lit_end(self, end, lvl, noskip):
        if noskip or not self.sees_ignore[lvl]:
            return end
        return self.skip(end)

    # -- the interpreter -----------------------------------------------------
    def ev(self, e, pos, env, lvl, noskip=False):
        c = self.c
        c.states += 1
        k = e[0]
        text = self.text
        if k == 'str':
            v = e[1]
            if not v:
                return (v, pos)
            if text.startswith(v, pos):
                return (v, self.lit_end(pos + len(v), lvl, noskip))
            return FAIL
        if k in ('re', 'rei', 'stri'):
            if k == 'stri':
                pat, fl = re.escape(e[1]) if isinstance(e[1], str) else re.escape(e[1]), re.I
            else:
                pat, fl = e[1], (re.I if k == 'rei' else 0)
            m = _rx(pat, fl, isinstance(text, bytes)).match(text, pos)
            if not m:
                return FAIL
            return (m.group(0), self.lit_end(m.end(), lvl, noskip))
        if k == 'byte':
            if pos < len(text) and text[pos] == e[1]:
                return (e[1], self.lit_end(pos + 1, lvl, noskip))
            return FAIL
        if k == 'group':
            c.transitions += 1
            return self.ev(e[1], pos, env, lvl, noskip)
        if k == 'ref':
            n = e[1]
            c.transitions += 1
            if n in env:
                v = env[n]
                if isinstance(v, Closure):
                    return self.ev(v.expr, pos, v.env, v.lvl, noskip)
                raise IllFormed('value used as parser')
            return self.call_rule(n, (), {}, pos, self.top)
        if k == 'super':
            c.transitions += 1
            if lvl == 0:
                raise IllFormed('super in base grammar')
            return self.call_rule(e[1], (), {}, pos, lvl - 1)
        if k == 'ignored':
            return (None, self.skip(pos))
        if k == 'fail':
            return FAIL
        if k == 'back':
            return (None, pos - e[1]) if pos >= e[1] else FAIL
        if k == 'py':
            return (self.pyeval(e[1], env), pos)
        if k == 'opt':
            c.transitions += 1
            r = self.ev(e[1], pos, env, lvl, noskip)
            return r if r is not FAIL else (None, pos)
        if k in ('star', 'plus', 'rep'):
            if k == 'rep':
                m, n = self.bound(e[2], env), self.bound(e[3], env)
            else:
                m, n = (1 if k == 'plus' else None), None
            if m is not None and n is not None and m > n:
                raise IllFormed('min > max')
            out = []
            p = pos
            while n is None or len(out) < n:
                c.transitions += 1
                r = self.ev(e[1], p, env, lvl, noskip)
                if r is FAIL:
                    break
                if r[1] < p or (r[1] == p and n is None):
                    # (with an upper bound the repetition terminates whatever the element consumes)
                    raise IllFormed('repetition without progress')
                out.append(r[0])
                p = r[1]
            if m is not None and len(out) < m:
                if out:
                    c.restores += 1
                return FAIL
            return (out, p)
        if k == 'expect':
            c.transitions += 1
            r = self.ev(e[1], pos, env, lvl, noskip)
            return (r[0], pos) if r is not FAIL else FAIL
        if k == 'expectnot':
            c.transitions += 1
            r = self.ev(e[1], pos, env, lvl, noskip)
            return FAIL if r is not FAIL else (None, pos)
        if k == 'skip':
            p = pos
            while True:
                for x in e[1:]:
                    c.transitions += 1
                    r = self.ev(x, p, env, lvl, noskip)
                    if r is not FAIL:
                        if r[1] == p:
                            if x[0] in ('opt', 'star', 'skip', 'py') or (x[0] == 'str' and not x[1]):
                                continue     # cannot fail: no progress, try the next pattern
                            raise IllFormed('skip pattern succeeded without progress')
                        if r[1] < p:
                            raise IllFormed('skip pattern moved backwards')
                        p = r[1]
                        break
                else:
                    return (None, p)
        if k == 'seq':
            out = []
            p = pos
            for x in e[1:]:
                c.transitions += 1
                r = self.ev(x, p, env, lvl, noskip)
                if r is FAIL:
                    if p > pos:
                        c.restores += 1
                    return FAIL
                out.append(r[0])
                p = r[1]
            return (out, p)
        if k in ('right', 'left'):
            c.transitions += 2
            r1 = self.ev(e[1], pos, env, lvl, noskip)
            if r1 is FAIL:
                return FAIL
            r2 = self.ev(e[2], r1[1], env, lvl, noskip)
            if r2 is FAIL:
                if r1[1] > pos:
                    c.restores += 1
                return FAIL
            return ((r2[0] if k == 'right' else r1[0]), r2[1])
        if k == 'choice':
            for x in e[1:]:
                c.transitions += 1
                r = self.ev(x, pos, env, lvl, noskip)
                if r is not FAIL:
                    return r
            return FAIL
        if k == 'longest':
            best = FAIL
            for x in e[1:]:
                c.transitions += 1
                r = self.ev(x, pos, env, lvl, noskip)
                if r is not FAIL and (best is FAIL or r[1] > best[1]):
                    best = r
            return best
        if k == 'sep':
            return self.ev_sep(e, pos, env, lvl, noskip)
        if k == 'let':
            c.transitions += 2
            r = self.ev(e[2], pos, env, lvl, noskip)
            if r is FAIL:
                return FAIL
            env2 = dict(env)
            env2[e[1]] = r[0]
            return self.ev(e[3], r[1], env2, lvl, noskip)
        if k == 'where':
            c.transitions += 2
            r = self.ev(e[1], pos, env, lvl, noskip)
            if r is FAIL:
                return FAIL
            f = self.ev(e[2], r[1], env, lvl, noskip)
            if f is FAIL:
                return FAIL
            return (r[0], f[1]) if f[0](r[0]) else FAIL
        if k in ('apply', 'applyl'):
            c.transitions += 2
            r1 = self.ev(e[1], pos, env, lvl, noskip)
            if r1 is FAIL:
                return FAIL
            r2 = self.ev(e[2], r1[1], env, lvl, noskip)
            if r2 is FAIL:
                return FAIL
            if k == 'apply':
                return (r2[0](r1[0]), r2[1])
            return (r1[0](r2[0]), r2[1])
        if k == 'call':
            c.transitions += 1
            args = [self.argval(a, env, lvl) for a in e[2]]
            kwargs = {kk: self.argval(a, env, lvl) for kk, a in e[3]}
            fname = e[1]
            if fname in env:
                # a template passed as an argument and called through the parameter
                v = env[fname]
                if isinstance(v, Closure) and v.expr[0] == 'ref' and v.expr[1] not in v.env:
                    return self.call_rule(v.expr[1], args, kwargs, pos, self.top)
                raise IllFormed('call through a local name that is not a rule')
            return self.call_rule(fname, args, kwargs, pos, self.top)
        if k == 'supercall':
            # super.T(args): the template as seen from the parent of the grammar that contains the call
            c.transitions += 1
            if lvl == 0:
                raise IllFormed('super in base grammar')
            args = [self.argval(a, env, lvl) for a in e[2]]
            kwargs = {kk: self.argval(a, env, lvl) for kk, a in e[3]}
            return self.call_rule(e[1], args, kwargs, pos, lvl - 1)
        if k == 'optable':
            return self.ev_optable(e, pos, env, lvl, noskip)
        raise Exception('model: unknown node %r' % (k,))

    def bound(self, b, env):
        if b is None or isinstance(b, int):
            return b
        if isinstance(b, str):
            if b not in env:
                raise IllFormed('unbound repetition count')
            v = env[b]
        else:
            v = self.pyeval(b[1], env)
        if v is None:
            return None
        if isinstance(v, bool) or not isinstance(v, int):
            raise IllFormed('non-integer repetition count')
        return v

    def ev_sep(self, e, pos, env, lvl, noskip):
        _, el, sp, disc, trail, empty, req = e
        c = self.c
        out = []
        saw = False
        p = pos
        cp = pos
        while True:
            c.transitions += 1
            r = self.ev(el, p, env, lvl, noskip)
            if r is FAIL:
                break
            if r[1] < p:
                raise IllFormed('list element moved backwards')
            out.append(r[0])
            p0 = p
            p = cp = r[1]
            c.transitions += 1
            s = self.ev(sp, p, env, lvl, noskip)
            if s is FAIL:
                break
            if s[1] <= p0:
                raise IllFormed('separated list without progress')
            saw = True
            p = s[1]
            # Is the separator followed by another element?  If not it is a
            # trailing separator: consumed iff allow_trailer.
            nxt = self.ev(el, p, env, lvl, noskip)
            if nxt is not FAIL:
                if not disc:
                    out.append(s[0])
                continue
            if trail:
                if not disc:
                    out.append(s[0])
                cp = p
            else:
                c.restores += 1
            break
        if not out and not empty:
            return FAIL
        if req and out and not saw:
            return FAIL
        if req and not out and not empty:
            return FAIL
        return (out, cp)

    # -- operator tables (DESIGN appendix A) ----------------------------------
    def ev_optable(self, e, pos, env, lvl, noskip):
        _, operand, rows = e
        c = self.c
        prefix = [(i, ops) for i, (k, ops) in enumerate(rows) if k == 'prefix' and ops]
        postfix = [(i, ops) for i, (k, ops) in enumerate(rows) if k == 'postfix' and ops]
        infix = [(i, k, ops) for i, (k, ops) in enumerate(rows) if k in ('left', 'right', 'infix') and ops]
        operands = [[operand]] + [ops for (k, ops) in rows if k == 'mixfix' and ops]

        def row_match(ops, p):
            for o in ops:
                c.transitions += 1
                r = self.ev(o, p, env, lvl, noskip)
                if r is not FAIL:
                    return r
            return FAIL

        def longest(rws, p):
            best = FAIL
            for rw in rws:
                r = row_match(rw[-1], p)
                if r is not FAIL and (best is FAIL or r[1] > best[1][1]):
                    best = (rw, r)
            return best

        def match_operand(p):
            best = FAIL
            for ops in operands:
                r = row_match(ops, p)
                if r is not FAIL and (best is FAIL or r[1] > best[1]):
                    best = r
            return best

        groups = []
        pending = None
        p = pos
        while True:
            q = p
            pre = []
            while True:
                m = longest(prefix, q)
                if m is FAIL:
                    break
                if m[1][1] <= q:
                    raise IllFormed('prefix operator without progress')
                pre.append(('pre', m[0][0], None, m[1][0]))
                q = m[1][1]
            o = match_operand(q)
            if o is FAIL:
                if q > p or pending is not None:
                    c.restores += 1
                break
            if o[1] < q:
                raise IllFormed('operand moved backwards')
            q2 = o[1]
            post = []
            while True:
                m = longest(postfix, q2)
                if m is FAIL:
                    break
                if m[1][1] <= q2:
                    raise IllFormed('postfix operator without progress')
                post.append(('post', m[0][0], None, m[1][0]))
                q2 = m[1][1]
            groups.append((pending, pre, ('opd', o[0]), post, q2))
            group_start = p
            p = q2
            m = longest(infix, p)
            if m is FAIL:
                break
            pending = ('inf', m[0][0], m[0][1], m[1][0])
            p = m[1][1]
            if p <= group_start and len(groups) > 1:
                raise IllFormed('operator table without progress')
        if not groups:
            return FAIL

        toks = []
        for gi, (pend, pre, opd, post, end) in enumerate(groups):
            if pend:
                toks.append(pend + (gi,))
            for t in pre:
                toks.append(t + (gi,))
            toks.append(opd + (gi,))
            for t in post:
                toks.append(t + (gi,))
        st = {'i': 0, 'stop': False, 'last': -1}
        levels = {}

        def mk(cls, fields, level=None):
            o = Obj(cls, fields)
            if level is not None:
                levels[id(o)] = level
            return o

        def nud():
            t = toks[st['i']]
            st['i'] += 1
            if t[0] == 'pre':
                right = pexpr(t[1])
                return mk('Prefix', (('operator', t[3]), ('right', right)))
            st['last'] = t[-1]
            return t[1]

        def pexpr(maxl):
            left = nud()
            while st['i'] < len(toks) and not st['stop']:
                t = toks[st['i']]
                if t[0] == 'post':
                    if t[1] > maxl:
                        break
                    st['i'] += 1
                    left = mk('Postfix', (('left', left), ('operator', t[3])))
                    continue
                if t[0] == 'inf':
                    lv, assoc = t[1], t[2]
                    if lv > maxl:
                        break
                    if assoc == 'infix' and levels.get(id(left)) == lv:
                        st['stop'] = True
                        break
                    st['i'] += 1
                    right = pexpr(lv if assoc == 'right' else lv - 1)
                    left = mk('Infix', (('left', left), ('operator', t[3]), ('right', right)), lv)
                    continue
                break
            return left

        keep = []       # keep objects alive so ids in `levels` stay unique
        tree = pexpr(10 ** 6)
        keep.append(tree)
        end = groups[st['last']][4]
        if st['last'] < len(groups) - 1:
            c.restores += 1
        return (tree, end)


def plain(v, spans=False):
    """Canonical, hashable, type-strict form of a model value (mirror of impl.canon)."""
    if v is None:
        return None
    if isinstance(v, bool):
        return ('B', v)
    if isinstance(v, (str, bytes, int, float)):
        return v
    if isinstance(v, list):
        return ('L',) + tuple(plain(x, spans) for x in v)
    if isinstance(v, tuple):
        return ('T',) + tuple(plain(x, spans) for x in v)
    if isinstance(v, dict):
        return ('D',) + tuple((plain(k, spans), plain(x, spans)) for k, x in v.items())
    if isinstance(v, Obj):
        fields = tuple((f, plain(x, spans)) for f, x in v.fields)
        if spans:
            return ('O', v.cls, fields, v.span)
        return ('O', v.cls, fields)
    if isinstance(v, Closure):
        if v.lit is not None:
            return v.lit
        return ('?', 'parser')
    if callable(v):
        return ('FN',)          # function values (inline Python) are compared as opaque
    return ('?', type(v).__name__, repr(v)[:60])
