"""E3: controlled thread scheduler (DESIGN 2.5, appendix B).

Real threading.Thread objects, but exactly one runs at a time: a per-thread semaphore is the baton.
Scheduling points are trace events ('line', optionally 'opcode') in code objects whose co_filename is in
`files`.  A schedule is a dict {(thread, local step): target thread}: when `thread` reaches its step number
`step` it hands the baton to `target` (a preemption); when a thread finishes, the baton goes to the lowest
unfinished thread (free switch).  An execution is therefore a deterministic function of the schedule.
"""
import sys
import threading

WAIT = 60.0      # a switch that is not answered within this time is a hang (executions take milliseconds; generous: a loaded machine must never turn into an alarm)


class Hang(Exception):
    pass


class Execution:
    def __init__(self, bodies, files, schedule, opcodes=False):
        self.bodies = bodies
        self.n = len(bodies)
        self.files = files
        self.schedule = schedule
        self.opcodes = opcodes
        self.sems = [threading.Semaphore(0) for _ in bodies]
        self.main = threading.Semaphore(0)
        self.done = [False] * self.n
        self.results = [None] * self.n
        self.steps = [0] * self.n
        self.trace = []          # (thread, step, target) for every switch taken
        self.hung = False

    def _local(self, tid):
        def local(frame, event, arg):
            if event == 'line' or event == 'opcode':
                self._point(tid)
            return local
        return local

    def _global(self, tid):
        local = self._local(tid)
        files = self.files
        opcodes = self.opcodes

        def tracer(frame, event, arg):
            if frame.f_code.co_filename in files:
                if opcodes:
                    frame.f_trace_opcodes = True
                    frame.f_trace_lines = False
                return local
            return None
        return tracer

    def _point(self, tid):
        s = self.steps[tid]
        self.steps[tid] = s + 1
        tgt = self.schedule.get((tid, s))
        if tgt is not None and not self.done[tgt] and tgt != tid:
            self.trace.append((tid, s, tgt))
            self.sems[tgt].release()
            if not self.sems[tid].acquire(timeout=WAIT):
                self.hung = True
                raise Hang()

    def _run_thread(self, tid):
        if not self.sems[tid].acquire(timeout=WAIT * 2):
            self.hung = True
            return
        sys.settrace(self._global(tid))
        try:
            try:
                self.results[tid] = self.bodies[tid]()
            except Hang:
                self.results[tid] = ('HANG',)
            except BaseException as e:
                self.results[tid] = ('BODY-EXC', type(e).__name__, str(e)[:80])
        finally:
            sys.settrace(None)
            self.done[tid] = True
            for t in range(self.n):
                if not self.done[t]:
                    self.sems[t].release()
                    break
            else:
                self.main.release()

    def run(self, first=0):
        ths = [threading.Thread(target=self._run_thread, args=(i,), daemon=True) for i in range(self.n)]
        for t in ths:
            t.start()
        self.sems[first].release()
        if not self.main.acquire(timeout=WAIT * 2):
            self.hung = True
        for t in ths:
            t.join(timeout=1.0)
        return self.results, list(self.steps), list(self.trace)


def schedules(nthreads, steps_of, bound, part=(0, 1)):
    """Enumerate (first thread, schedule) with at most `bound` preemptions.
    steps_of(first, prefix_schedule) -> list of per-thread step counts observed for that execution; it is
    used to learn how many scheduling points each thread has under a given prefix (iterative deepening)."""
    k, K = part          # this enumerator yields the k-th of K slices (by first preemption point)
    if k == 0:
        for first in range(nthreads):
            yield first, {}
    if bound < 1:
        return
    for first in range(nthreads):
        steps = steps_of(first, {})
        for i in range(steps[first]):
            if i % K != k:
                continue
            for tgt in range(nthreads):
                if tgt == first:
                    continue
                s1 = {(first, i): tgt}
                yield first, s1
                if bound >= 2:
                    st2 = steps_of(first, s1)
                    # second preemption: the target thread is preempted at any of its points
                    for j in range(st2[tgt]):
                        for tgt2 in range(nthreads):
                            if tgt2 == tgt:
                                continue
                            yield first, {(first, i): tgt, (tgt, j): tgt2}
