"""C05 - bound names and data-dependent predicates see the values parsed earlier (DESIGN 3/C05)."""
import itertools

from .. import e1
from ..core import Check

S = ('re', '[ab]')                                   # binds a string
I = ('apply', ('re', '\\d'), ('py', 'int'))          # binds an int
ANY = ('re', '[ab0-9]')
VALS = {'S': S, 'I': I}
NAMES = ('x', 'y')
TMPL = [('T', ('rule', ['p'], ('seq', ('opt', ('re', '[ab]')), ('py', 'p')))),
        ('T2', ('rule', ['p'], ('ref', 'p'))),
        # decoy rules named like the bound names: a bound name always wins over a rule of the same name
        ('x', ('rule', None, ('str', 'b'))), ('y', ('rule', None, ('str', 'a')))]


def uses(env, dirty):
    """use forms over the names that are lexically in scope and unambiguous (not `dirty`)"""
    ok = [n for n in env if n not in dirty]
    for n in ok:
        yield ('py', n)
        yield ('where', ANY, ('py', 'lambda v: v == %s' % n))
        yield ('call', 'T', [('ref', n)], [])
        # compound arguments that mention the name (compiled into a function of their own)
        yield ('call', 'T2', [('where', ANY, ('py', 'lambda v: v == %s' % n))], [])
        if env[n] == 'I':
            yield ('rep', ('str', 'a'), n, n)
            yield ('rep', ('str', 'a'), None, n)
            yield ('call', 'T2', [('rep', ('str', 'a'), n, n)], [])
    if 'x' in ok and 'y' in ok:
        yield ('py', '(x, y)')


def bodies(env, dirty, binders, nuses, depth):
    """yield (ast, binders used, uses used, names re-bound inside (set))"""
    if nuses >= 1:
        for u in uses(env, dirty):
            yield u, 0, 1, frozenset()
    if depth <= 0:
        return
    if binders >= 1:
        for n in NAMES:
            for vk, v in VALS.items():
                env2 = dict(env)
                env2[n] = vk
                for b, bu, uu, rb in bodies(env2, dirty - {n}, binders - 1, nuses, depth - 1):
                    if uu == 0:
                        continue
                    yield ('let', n, v, b), bu + 1, uu, rb | ({n} if n in env else frozenset())
    if nuses >= 2:
        for b1, bu1, uu1, rb1 in bodies(env, dirty, binders, nuses - 1, depth - 1):
            for b2, bu2, uu2, rb2 in bodies(env, dirty, binders - bu1, nuses - uu1, depth - 1):
                yield ('seq', b1, b2), bu1 + bu2, uu1 + uu2, rb1 | rb2


LEAK = ('let', 'x', ANY, ('let', 'y', ANY, ('fail',)))     # binds both names to other values, then fails


def programs(tier):
    """(tag, start expr, extra rules)"""
    # quick: <=2 binders, <=2 uses; thorough: (<=2 binders, <=3 uses) and (<=3 binders, <=2 uses); depth <=3
    cfgs = [(2, 2, 3)] if tier == 'quick' else [(2, 3, 3), (3, 2, 3)]
    nb, nu, dp = cfgs[0]

    def union(env, shrink):
        seen = set()
        out = []
        for (b_, u_, d_) in cfgs:
            for x, _, _, _ in bodies(env, frozenset(), b_ - shrink, u_, d_ - shrink):
                k = repr(x)
                if k not in seen:
                    seen.add(k)
                    out.append(x)
        return out
    closed = union({}, 0)
    for p in closed:
        yield 'top', p, []
        yield 'after-abandoned', ('choice', LEAK, p), []
        yield 'under-star', ('star', ('seq', p, ('str', ';'))), []
        yield 'template-body', ('call', 'B', [('str', 'q')], []), [('B', ('rule', ['q'], p))]
    # bodies with x already bound (by an enclosing let, a parameter, a class field)
    for vk in ('S', 'I'):
        openx = union({'x': vk}, 1)
        other = 'I' if vk == 'S' else 'S'
        for p in openx:
            # an abandoned alternative shadowed x before failing
            yield 'shadow-abandoned', ('let', 'x', VALS[vk], ('choice', ('let', 'x', VALS[other], ('fail',)), p)), []
            yield 'shadow-abandoned-any', ('let', 'x', VALS[vk], ('choice', ('seq', ('let', 'x', ANY, ('py', 'x')), ('fail',)), p)), []
            # directly recursive rule: the recursive invocation rebinds x
            yield 'recursive', ('ref', 'R'), [('R', ('rule', None, ('let', 'x', VALS[vk], ('seq', ('opt', ('right', ('str', '('), ('ref', 'R'))), p))))]
            # parameter
            yield 'parameter', ('let', 'z', VALS[vk], ('call', 'P', [('ref', 'z')], [])), [('P', ('rule', ['x'], p))]
            # class fields (plain and let), instance observed
            yield 'field', ('ref', 'K'), [('K', ('class', None, [('x', False, VALS[vk]), ('r', False, p)]))]
            yield 'letfield', ('ref', 'K'), [('K', ('class', None, [('x', True, VALS[vk]), ('r', False, p)]))]
            # a later member reads the field after an inner scope may have shadowed it
            yield 'field-later', ('ref', 'K'), [('K', ('class', None, [('x', False, VALS[vk]), ('r', False, p), ('s', False, ('py', 'x'))]))]
            yield 'letfield-later', ('ref', 'K'), [('K', ('class', None, [('x', True, VALS[vk]), ('r', False, p), ('s', False, ('py', 'x')),
                                                                           (None, 'requires', ('py', 'x == s'))]))]
            yield 'field-star', ('star', ('ref', 'K')), [('K', ('class', None, [('x', False, VALS[vk]), ('r', False, p), (None, True, ('str', ';'))]))]
            # class parameter
            yield 'classparam', ('let', 'z', VALS[vk], ('call', 'C', [('ref', 'z')], [])), [('C', ('class', ['x'], [('r', False, p)]))]
    # requires / pass / omitted members
    for vk1, vk2 in itertools.product(('S', 'I'), repeat=2):
        for cond in ('x != y', 'x == y', 'y'):
            yield 'requires', ('ref', 'K'), [('K', ('class', None, [('x', False, VALS[vk1]), (None, True, ('opt', ('str', ','))),
                                                           ('y', True, VALS[vk2]), (None, 'requires', ('py', cond)),
                                                           ('z', False, ('py', '(x, y)'))]))]
    # where / |> / <| on their own
    preds = ["lambda v: v == 'a'", "lambda v: len(v) > 1", "lambda v: False", "lambda v: v", "str.isdigit"]
    funcs = ['len', 'str.upper', 'lambda v: [v, v]', 'lambda v: None', 'int']
    bases = [('re', '[ab]+'), ('re', '\\d*'), ('seq', ('re', '[ab]'), ('re', '\\d')), ('opt', ('str', 'a'))]
    for b in bases:
        for pr in preds:
            w = ('where', b, ('py', pr))
            yield 'where', w, []
            yield 'where-star', ('star', ('seq', w, ('str', ';'))), []
            yield 'where-choice', ('choice', w, ANY), []
            yield 'where-opt', ('seq', ('opt', w), ('re', '.*')), []
        for f in funcs:
            yield 'apply', ('apply', b, ('py', f)), []
            yield 'applyl', ('applyl', ('py', f), b), []
            # the function side consumes input itself (a sign, a tag): f <| a parses f first, a |> f parses a first
            yield 'applyl', ('applyl', ('right', ('re', '[ab;]'), ('py', f)), b), []
            yield 'apply', ('apply', b, ('right', ('str', ';'), ('py', f))), []
            yield 'applyl', ('choice', ('applyl', ('right', ('str', 'a'), ('py', f)), b), ANY), []
            yield 'apply-choice', ('choice', ('seq', ('apply', b, ('py', f)), ('str', ';')), ANY), []


def well_typed(tag, e):
    """drop programs whose inline Python would raise for type reasons (len(None), int('a')...)"""
    return True


# a plain rule AFTER the classes that refers to the decoy rules: field names of a class must not leak into it
AFTER = [('UsesXY', ('rule', None, ('seq', ('ref', 'x'), ('opt', ('ref', 'y')))))]


# rules compiled BEFORE the program that contain the very argument texts the programs use, with x / y being the decoy rules
BEFORE = [('Dz1', ('rule', None, ('call', 'T2', [('where', ANY, ('py', 'lambda v: v == x'))], []))),
          ('Dz2', ('rule', None, ('call', 'T2', [('where', ANY, ('py', 'lambda v: v == y'))], []))),
          ('Dz3', ('rule', None, ('call', 'T', [('ref', 'x')], [])))]


def jobs(tier):
    inp = 'ab02;:4' if tier == 'quick' else 'ab012;:4'
    for tag, e, extra in programs(tier):
        rules = BEFORE + [('start', ('rule', None, e))] + TMPL + list(extra) + AFTER
        mods = [(tuple(rules), (), 'start', None, (), False, 'named', None)]
        if tag in ('where', 'apply', 'applyl', 'where-star', 'where-choice', 'where-opt', 'apply-choice'):
            yield {'mods': mods, 'inputs': 'ab01;:4', 'mode': 'simple', 'tag': tag, 'pyraise': True}
        elif tag == 'recursive':
            yield {'mods': mods, 'inputs': 'ab01(:%d' % (4 if tier == 'quick' else 5), 'mode': 'simple', 'tag': tag}
        elif extra and extra[0][1][0] == 'class':
            # (second entry point: the rule after the class, on a few inputs)
            yield {'mods': mods, 'inputs': inp, 'mode': 'simple', 'tag': tag}
            yield {'mods': mods, 'inputs': ['b', 'ba', 'a', ''], 'mode': 'simple', 'tag': tag + '/rule-after-class',
                   'entries': [('UsesXY', None)]}
        else:
            yield {'mods': mods, 'inputs': inp, 'mode': 'simple', 'tag': tag}


def run(tier, seed):
    chk = Check('C05', tier, seed)
    chk.rule = ('binding programs: all bodies with <=2 let binders and <=2 uses (thorough: <=2/<=3 and <=3/<=2), nesting depth <=3, over names {x,y} bound to a string or '
                'an int, uses = inline Python, pair, where-predicate, repetition counts, template argument; each closed body placed at top '
                'level, after an abandoned alternative that bound both names, under *, in a template body; each body with free x placed '
                'after a shadowing abandoned alternative, in a directly recursive rule, under a rule parameter, class field, let field, '
                'repeated class, class parameter; requires/pass/let members; where, |>, <| over predicate/function menus under *, |, ?; '
                'x all inputs over {a,b,0,2,;} (thorough {a,b,0,1,2,;}) up to length 4; non-trivial = the model run needed a restore')
    chk.assumptions = ['reference interpreter with lexical environments',
                       'scoping is lexical: after the end of an inner let that shadowed a name, the name denotes the outer binding again']
    chk.explore(e1.run_job, jobs(tier), chunk=8)
    return chk.finish(floor=1000)


def replay(case):
    return e1.replay_case(case, 'simple')
