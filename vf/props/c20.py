"""C20 - user-chosen names cannot collide with generated code (DESIGN 3/C20)."""
import io
import itertools
import keyword
import re
import tokenize

from .. import e1, impl
from ..core import Check, case_key

BASES = {
    'G1': (r'''
ignore /~+/
start = Item*
Item = Pair | Wd | Tm("x") | Ex
Tm(prm) = let lv = prm in [`lv`, prm, Wr(Expect(prm) |> `lambda z: (lv, z)`)?]
Wr(wq) = wq
class Wd { wf: /[ab]+/ }
class Pair { kf: Wd << ":"; let sf: "="?; vf: Wd }
Ex = "1" >> (Nm between { left: "+" })
Nm = /[0-9]/ |> `int`
''', {'rule': 'Item', 'class': 'Wd', 'field': 'kf', 'letfield': 'sf', 'param': 'prm', 'letvar': 'lv', 'template': 'Tm', 'rule2': 'Nm',
      'field2': 'wf', 'ignored-free-rule': 'Ex', 'template2': 'Wr', 'param2': 'wq'},
           'ab:1+x', ['a:b', 'a:=b', '1+2', '12+3', 'xx', 'a:bxx1', 'ab:ba1+1', 'a~:b~~x']),
    'G2': (r'''
start = Rec+
class Rec { cnt: Dg; body: Ch{cnt}; tail: Ct(cnt, ";")?; requires `len(body) == cnt` }
class Ct(np, sp) { nv: `np`; rest: sp >> (Ch // ",") where `lambda q: len(q) <= np` }
class Cv(nq, tg) { nw: `(nq, tg)`; more: Ch{nq} }
Dg = /[0-9]/ |> `int`
Ch = /[ab]/
''', {'class': 'Rec', 'field': 'cnt', 'field2': 'body', 'field3': 'tail', 'classtemplate': 'Ct', 'param': 'np', 'param2': 'sp',
      'field4': 'nv', 'rule': 'Dg', 'rule2': 'Ch', 'classtemplate2': 'Cv', 'param3': 'nq', 'param4': 'tg', 'field5': 'nw'},
           '12ab;,', ['1a;a', '2ab;a,b', '2ab;a,b,a', '0', '1a1b;b', '2a', '1a;']),
    'G3': (r'''
ignore Sp = / +/
start = Stmt /? ";"
Stmt = Asg | Ex
class Asg { nm: Wd << "="; val: Ex; let mk: (Atom between {
    postfix: "!"
    left: "*"
})? }
Ex = Atom between {
    mixfix: "(" >> Ex << ")"
    prefix: "-"
    left: "*"
    right: "^"
}
Atom = Wd | Nb
Wd = /[ab]+/
Nb = /[0-9]+/ |> `int`
''', {'ignorerule': 'Sp', 'rule': 'Stmt', 'class': 'Asg', 'field': 'nm', 'field2': 'val', 'letfield': 'mk', 'rule2': 'Ex', 'rule3': 'Atom', 'rule4': 'Nb'},
           'a1=*;', ['a=1*2', 'a = -b ^ 2 ; 1', '(a)*b', '-(1^2^a);', 'a==', '1 * (2', 'b=a;a=b;', 'a=1 b!*2!!', 'a=b 1!;b']),
    'G4': (r'''
start = Rec+
class Rec { tag: 0x61 | 0x62; cnt: /[0-9]/ |> `int`; body: Bt{cnt}; let sep: 0x3B? }
Bt = 0x61 | b"b"
''', {'class': 'Rec', 'field': 'tag', 'field2': 'cnt', 'field3': 'body', 'letfield': 'sep', 'rule': 'Bt'},
           'ab1;', ['a1a;', 'b2ab;a0', 'a2a', 'a1b;b1a', 'a0;']),
}
BYTES_BASES = {'G4'}
# parameterised class as entry point with value arguments: Cv.parse(2, 'x')(text)
ENTRIES = {'G2': (('Cv', (2, 'x'), ['ab', 'a', 'abb', '']), ('Cv', (0, None), ['', 'a']))}
API = {'parse', 'Infix', 'Prefix', 'Postfix', 'ParsedObject', 'ParsingRule', 'InputError', 'ParseError', 'PartialParseError',
       'visit', 'traverse', 'transform'}
DSL_WORDS = {'class', 'let', 'in', 'pass', 'requires', 'ignore', 'ignored', 'override', 'overrides', 'grammar', 'extends', 'between', 'where',
             'left', 'right', 'infix', 'mixfix', 'postfix', 'prefix', 'operator', 'start', 'Start', 'True', 'False', 'None'}


def rename(desc, old, new):
    return re.sub(r'(?<![A-Za-z0-9_])%s(?![A-Za-z0-9_])' % re.escape(old), new, desc)


def inputs_for(sigma, extra, as_bytes=False):
    out = e1.strings(sigma, 3) + list(extra)
    return [t.encode('latin-1') for t in out] if as_bytes else out


def canon(v, mp):
    """canonical outcome value with class and field names mapped back to the base grammar's"""
    if isinstance(v, tuple) and v and v[0] == 'O':
        return ('O', mp.get(v[1], v[1]), tuple((mp.get(f, f), canon(x, mp)) for f, x in v[2]), v[3] if len(v) > 3 else None)
    if isinstance(v, tuple):
        return tuple(canon(x, mp) for x in v)
    return v


def outcome_table(desc, inputs, mp, extra_entries=()):
    b = impl.build(desc, include_source=True, time_limit=20.0)
    if b[0] != 'OK':
        return ('COMPILE', b[1] if len(b) > 1 else b[0]), None
    g = b[1]
    out = []
    inv = {v: k for k, v in mp.items()}
    for cls, args, texts in extra_entries:
        # parameterised class used as an entry point:  g.Cls.parse(args)(text)
        for t in texts:
            try:
                parse = getattr(g, inv.get(cls, cls)).parse(*args)
                o = impl.run(parse, e1.fresh(t), 0, True, spans=True, time_limit=0.5, patient=8.0)
                out.append(('ENTRY', o['kind'], canon(o.get('value'), mp), o.get('index')))
            except Exception as x:
                out.append(('ENTRY-EXC', type(x).__name__))
    for t in inputs:
        o = impl.run(g.parse, e1.fresh(t), 0, True, spans=True, time_limit=0.5, raw=True, patient=8.0)
        k = o['kind']
        if k in ('RET', 'PARTIAL'):
            v = o['value']
            try:
                api = (len(list(g.visit(v))), len(list(g.traverse(v))),
                       impl.canon(g.transform(v, lambda n: n), True) == impl.canon(v, True),
                       all(x == x and hash(x) == hash(x) for x in g.visit(v)),
                       all(eval(repr(x), dict(vars(g))) == x for x in g.visit(v)))
            except Exception as x:
                api = ('API-EXC', type(x).__name__)
            out.append((k, canon(impl.canon(v, True), mp), o.get('index'), api))
        elif k == 'ERROR':
            out.append((k, o['index'], o['line'], o['column']))
        elif k == 'EXC':
            out.append((k, o['type']))
        else:
            out.append((k,))
            break
    return out, g


def pool_for(desc, used):
    """every identifier a user name could collide with: NAME tokens of the generated module (temporaries, helpers,
    builtins it refers to) and the public names of sourcer.expressions (constructor interception)"""
    sourcer = impl.load()
    b = impl.build(desc, include_source=True)
    names = set()
    for tok in tokenize.generate_tokens(io.StringIO(b[1]._source_code).readline):
        if tok.type == tokenize.NAME:
            names.add(tok.string)
    # names from which the generator derives its own (_parse_<rule>, _try_<rule>, ...): a user name equal to the
    # remainder of a generated helper's name produces that helper's name
    for n in list(names):
        for prefix in ('_parse_', '_try_', '_raise_', '_'):
            if n.startswith(prefix) and len(n) > len(prefix) and not n[len(prefix):].startswith('_'):
                names.add(n[len(prefix):])
    import sourcer.expressions as ex
    names |= {n for n in dir(ex) if n[0].isupper()}
    # families the property statement names explicitly
    names |= {'value2', 'item1', 'staging1', 'list', 'len', 'id', 'object', 'dict', 'Seq', 'List', 'Left', 'self', 'text', 'pos',
              'result', 'memo', 'key', 'stack', 'node', 'callback', 'cls', 'type', 'str', 'int', 'tuple', 'set', 'hash', 'getattr', 'isinstance',
              'reversed', 'enumerate', 'super', 'repr', 'print', 'fullparse', 'operand', 'closure', 'min', 'max', 'field', 'fields', 'name', 'args', 'kwargs', 'func'}
    # identifiers that merely START with a word of the grammar language (they are ordinary identifiers)
    names |= {'letter', 'Nonempty', 'Trueish', 'Falsey', 'whereabouts', 'classy', 'passage', 'inner', 'ignoreme', 'ignoredx',
              'overriden', 'grammarian', 'extendsx', 'betweenness', 'requirement', 'lefty', 'righty', 'infixed', 'mixfixy',
              'postfixy', 'prefixy', 'superb', 'starter', 'b', 'i', 'B', 'I', 'x0', 'X0'}
    return sorted(n for n in names if not n.startswith('_') and not keyword.iskeyword(n) and n not in API
                  and n not in used and n not in DSL_WORDS)


def used_names(desc):
    return set(re.findall(r'[A-Za-z_][A-Za-z_0-9]*', desc))


def job_fn(job):
    gname, renames = job          # renames: [(role, old, new)]
    desc, roles, sigma, extra = BASES[gname]
    inputs = inputs_for(sigma, extra, gname in BYTES_BASES)
    res = {'ctr': {'cases': 0, 'nontrivial': 0, 'states': 1, 'transitions': len(inputs)}, 'sets': {'outcome_kinds': set()},
           'viol': [], 'viol_keys': []}
    extra_entries = ENTRIES.get(gname, ())
    base, _ = outcome_table(desc, inputs, {}, extra_entries)
    d2 = desc
    mp = {}
    for role, old, new in renames:
        d2 = rename(d2, old, new)
        mp[new] = old
    got, g = outcome_table(d2, inputs, mp, extra_entries)
    res['ctr']['cases'] += len(inputs)
    res['ctr']['nontrivial'] += 1
    if got != base:
        if isinstance(got, tuple):
            why = 'Grammar() raises %s' % got[1]
            detail = got
        else:
            k = next((i for i in range(min(len(base), len(got))) if base[i] != got[i]), 0)
            why = 'behaviour changes (%s instead of %s)' % (got[k][0] if k < len(got) else '?', base[k][0])
            detail = {'input': inputs[k], 'base': repr(base[k])[:200], 'renamed': repr(got[k])[:200] if k < len(got) else None}
        case = {'base': gname, 'renamings': [[r, o, n] for r, o, n in renames]}
        key = case_key(case)
        sig = '%s role=%s %s' % (gname, '+'.join(r for r, _, _ in renames), why.split(' (')[0])
        res['viol_keys'].append((key, sig))
        res['viol'].append({'sig': sig, 'key': key, 'case': dict(case, description=d2), 'expected': 'same behaviour as the base grammar', 'got': detail})
    for o in (got if isinstance(got, list) else []):
        res['sets']['outcome_kinds'].add(o[0])
    res['sample'] = {'base_grammar': gname, 'renamings': [[r, o, n] for r, o, n in renames], 'inputs': len(inputs)}
    return res


def all_jobs(tier):
    for gname, (desc, roles, sigma, extra) in BASES.items():
        pool = pool_for(desc, used_names(desc))
        for role, old in roles.items():
            for new in pool:
                yield (gname, [(role, old, new)])
        if tier == 'thorough':
            # pairs of simultaneous renamings over the identifiers that look like generated temporaries
            temps = [n for n in pool if re.match(r'^[a-z_]+[0-9]+$', n)][:40] + ['self', 'text', 'pos', 'result']
            rl = list(roles.items())
            for (r1, o1), (r2, o2) in itertools.combinations(rl, 2):
                for n1, n2 in itertools.permutations(temps[:14], 2):
                    yield (gname, [(r1, o1, n1), (r2, o2, n2)])


def run(tier, seed):
    chk = Check('C20', tier, seed)
    chk.rule = ('4 base grammars (one of them binary; covering rule, class, class field, let field, parameter, let variable, rule and class templates, operator '
                'tables, named ignore rule, requires, counts) x every role (10/10/8) x EVERY identifier that occurs as a NAME token in the '
                'generated module of that grammar (temporaries, helpers, builtins it refers to), every public name of sourcer.expressions and '
                'the families the statement names (value2, item1, list, len, id, object, dict, Seq, List, Left ...), minus underscore names, '
                'keywords, documented API and DSL words; thorough adds pairs of simultaneous renamings over temporaries; oracle (metamorphic): '
                'outcomes on all inputs (values with spans, error positions, visit/traverse/transform/==/hash/eval(repr) on every result) equal '
                'those of the base grammar with names mapped back; every renaming is a non-trivial case')
    chk.assumptions = ['a user identifier can only collide with an identifier that occurs in, or is resolved by, the generated module',
                       'word-boundary textual renaming of the description is a consistent renaming (base grammars use distinctive names)']
    chk.explore(job_fn, all_jobs(tier), chunk=4, job_deadline=120)
    return chk.finish(floor=500)


def replay(rep):
    case = rep['case']
    r = job_fn((case['base'], [tuple(x) for x in case['renamings']]))
    print(r['viol'][0]['got'] if r['viol'] else 'ok')
    return 1 if r['viol_keys'] else 0
