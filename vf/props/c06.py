"""C06 - parameterised rules behave like their expansion (DESIGN 3/C06)."""
import re

from .. import e1, render
from ..core import Check
from ..model import Spec

P, Q = ('ref', 'p'), ('ref', 'q')
A, B, C = ('str', 'a'), ('str', 'b'), ('str', 'c')
BASE = [('X', ('rule', None, B)), ('K', ('class', None, [('k', False, A)]))]

# template bodies that parse their parameter
PBODIES = {
    'p': P,
    '[p,p]': ('seq', P, P),
    'p*': ('star', P),
    'p|c': ('choice', P, C),
    'Ep>>p': ('right', ('expect', P), P),
    'let': ('let', 'v', P, ('seq', ('py', 'v'), P)),
    'opt-then': ('seq', ('opt', P), ('re', '[abc]?')),
}
# template bodies that use their parameter as a value
VBODIES = {
    'val': ('seq', A, ('py', 'p')),
    'val2': ('seq', ('py', '[p, p]'), ('opt', A)),
}
PARGS = {
    'str': A, 'stri': ('stri', 'a'), 're': ('re', '[ab]'), 'rule': ('ref', 'X'), 'cls': ('ref', 'K'),
    'choice': ('choice', A, B), 'seq': ('seq', A, B), 'star': ('star', A), 'opt': ('opt', A),
    'nested-call': ('call', 'ID', [A], []),
}
VARGS = {
    'py3': ('py', '3'), 'pys': ('py', "'s'"), 'pyNone': ('py', 'None'), 'pylist': ('py', '[1]'),
    'pydict': ('py', "{'k': 1}"), 'pytuple': ('py', '(1, [2])'), 'num': ('py', '7'), 'baretuple': ('py', '1, 2'),
    'lambda': ('py', 'lambda v: (v, 1)'), 'cond': ('py', '1 if 2 else 3'),
}
# earlier results of each type, bound by a call-site let
EARLIER = {
    'str': ('re', '[ab]'), 'int': ('apply', ('re', '[ab]'), ('py', 'len')), 'none': ('opt', C),
    'list': ('star', A), 'obj': ('ref', 'K'), 'listobj': ('star', ('ref', 'K')),
}
ID = [('ID', ('rule', ['z'], ('ref', 'z')))]


def call(name, args, kw):
    if kw:
        return ('call', name, [], list(zip(kw, args)))
    return ('call', name, list(args), [])


def subst(e, m):
    """substitute parameters by argument expressions (parser positions) / source text (inline Python)"""
    k = e[0]
    if k == 'ref' and e[1] in m:
        return m[e[1]]
    if k == 'py':
        code = e[1]
        for p, a in m.items():
            if re.search(r'\b%s\b' % p, code):
                if a[0] == 'py':
                    code = re.sub(r'\b%s\b' % p, '(%s)' % a[1], code)
                elif a[0] == 'ref':
                    code = re.sub(r'\b%s\b' % p, a[1], code)
                elif a[0] == 'str':
                    code = re.sub(r'\b%s\b' % p, repr(a[1]), code)
                else:
                    raise ValueError('no expansion')
        return ('py', code)
    if k == 'call':
        return ('call', e[1], [subst(x, m) for x in e[2]], [(kk, subst(x, m)) for kk, x in e[3]])
    if k == 'let':
        if e[1] in m:
            raise ValueError('capture')
        return ('let', e[1], subst(e[2], m), subst(e[3], m))
    if k in ('str', 'stri', 're', 'rei', 'byte', 'fail', 'back', 'super'):
        return e
    if k == 'rep':
        return ('rep', subst(e[1], m), e[2], e[3])
    return (k,) + tuple(subst(x, m) if isinstance(x, tuple) else x for x in e[1:])


def subst_count(e, cnt):
    if e[0] == 'rep':
        return ('rep', subst_count(e[1], cnt), int(cnt) if e[2] == 'n' else e[2], int(cnt) if e[3] == 'n' else e[3])
    if e[0] in ('str', 're', 'py', 'ref'):
        return e
    return (e[0],) + tuple(subst_count(x, cnt) if isinstance(x, tuple) else x for x in e[1:])


def universe(tier):
    """yield (tag, start expr, rules, expansion start expr or None)"""
    for bn, body in PBODIES.items():
        for an, arg in PARGS.items():
            for kw in (None, ('p',)):
                start = call('T', [arg], kw)
                exp = None
                try:
                    exp = subst(body, {'p': arg})
                except ValueError:
                    pass
                yield ('parser-arg/%s' % ('kw' if kw else 'pos'), start, [('T', ('rule', ['p'], body))] + BASE + ID, exp)
    for bn, body in VBODIES.items():
        for an, arg in VARGS.items():
            for kw in (None, ('p',)):
                start = call('T', [arg], kw)
                yield ('value-arg/%s' % ('kw' if kw else 'pos'), start, [('T', ('rule', ['p'], body))] + BASE + ID,
                       subst(body, {'p': arg}))
        # a string literal argument is both a parser and a value
        yield ('literal-as-value', call('T', [A], None), [('T', ('rule', ['p'], ('seq', P, ('py', 'p'), ('py', 'len(p)'))))] + BASE + ID, None)
        # earlier results of each type
        for en, src in EARLIER.items():
            for kw in (None, ('p',)):
                start = ('let', 'w', src, call('T', [('ref', 'w')], kw))
                yield ('earlier-result/%s' % ('kw' if kw else 'pos'), start, [('T', ('rule', ['p'], body))] + BASE + ID,
                       ('let', 'w', src, subst(body, {'p': ('ref', 'w')})))
    # a parameter named like a rule or a class of the grammar denotes the argument, not the rule
    for pname in ('X', 'K'):
        PN = ('ref', pname)
        for body in (PN, ('seq', PN, PN), ('star', PN), ('call', 'ID', [PN], []), ('call', 'ID', [('seq', PN, C)], [])):
            for arg in (A, ('re', '[ac]'), ('seq', A, C), ('ref', 'X')):
                for kw in (None, (pname,)):
                    yield ('param-named-like-rule/%s' % ('kw' if kw else 'pos'), call('T', [arg], kw),
                           [('T', ('rule', [pname], body))] + BASE + ID, None)
            # the same expression text elsewhere in the grammar, where the name IS the rule (before and after the template)
            if pname == 'X':
                other = ('Other', ('rule', None, body))
                for order in (0, 1):
                    rules = ([other] if order == 0 else []) + [('T', ('rule', [pname], body))] + ([other] if order else []) + BASE + ID
                    yield ('param-named-like-rule/same-text-elsewhere', ('seq', call('T', [A], None), ('opt', ('ref', 'Other'))), rules, None)
        yield ('param-named-like-rule/value', call('T', [('py', '7')], None),
               [('T', ('rule', [pname], ('seq', A, ('py', pname), ('call', 'V', [PN, ('py', pname)], [])))),
                ('V', ('rule', ['a1', 'a2'], ('py', '(a1, a2)')))] + BASE + ID, None)
    # a nested template call as argument is evaluated (with its own value arguments) only where and when the body uses the
    # parameter: here the inner value argument `w[0]` is invalid whenever the body does not use p
    V1 = [('V1', ('rule', ['v'], ('seq', B, ('py', 'v'))))]
    for body in (('choice', ('right', C, P), ('str', '-')), ('choice', ('seq', ('expectnot', A), ('re', '[bc-]')), P),
                 ('seq', ('opt', ('right', C, P)), ('re', '[-b]*'))):
        start = ('let', 'w', ('star', A), call('T', [('call', 'V1', [('py', 'w[0]')], [])], None))
        yield ('lazy-nested-call', start, [('T', ('rule', ['p'], body))] + V1 + BASE + ID, None)
    # a repetition count that is a template parameter, next to alternatives inside the template body
    for cnt in ('2', '3', '0'):
        for body in (('choice', ('rep', A, 'n', 'n'), ('str', 'aab'), ('str', 'a')), ('seq', ('star', ('seq', ('rep', A, 'n', 'n'), B)), ('re', '[ab]*')),
                     ('seq', ('opt', ('rep', A, 'n', None)), ('re', '[ab]*'))):
            yield ('count-parameter', call('T', [('py', cnt)], None), [('T', ('rule', ['n'], body))] + BASE + ID,
                   subst_count(body, cnt))
    # class members (plain and let) used inside a compound argument
    for omitted in (False, True):
        cls = ('class', None, [('n', omitted, ('apply', ('re', '[abc]'), ('py', 'len'))), ('xs', False, call('T', [('rep', A, 'n', 'n')], None)),
                               ('ys', False, call('T', [('where', ('re', '[abc]'), ('py', 'lambda v: len(v) == n'))], None))])
        for bn in ('p', '[p,p]', 'p*'):
            yield ('member-in-argument', ('ref', 'Kc'), [('Kc', cls), ('T', ('rule', ['p'], PBODIES[bn]))] + BASE + ID, None)
    # arguments mentioning names bound at the call site
    site = [
        ('where', ('re', '[ab]'), ('py', 'lambda y: y == w')),
        ('seq', ('re', '[abc]'), ('py', 'w')),
        ('rep', A, None, ('py', 'len(w)')),
        ('choice', ('seq', ('py', 'w'), C), B),
        ('let', 'w', ('re', '[abc]'), ('py', 'w')),                       # the argument re-binds the call-site name
        ('let', 'w', ('seq', ('re', '[abc]'), ('py', 'w')), ('py', 'w')),  # ... and reads the outer one first
    ]
    for arg in site:
        for bn in ('p', '[p,p]', 'p*', 'Ep>>p', 'p|c'):
            body = PBODIES[bn]
            for kw in (None, ('p',)):
                start = ('let', 'w', ('re', '[ab]'), call('T', [arg], kw))
                yield ('call-site-name/%s' % ('kw' if kw else 'pos'), start, [('T', ('rule', ['p'], body))] + BASE + ID,
                       ('let', 'w', ('re', '[ab]'), subst(body, {'p': arg})))
    # two parameters, mixed passing
    for a1n, a1 in (('str', A), ('re', ('re', '[ab]')), ('seq', ('seq', A, B)), ('rule', ('ref', 'X'))):
        for a2n, a2 in (('str', B), ('star', ('star', C)), ('cls', ('ref', 'K'))):
            body = ('seq', P, Q, ('opt', P))
            rules = [('T', ('rule', ['p', 'q'], body))] + BASE + ID
            exp = subst(body, {'p': a1, 'q': a2})
            yield ('two-params/pos', ('call', 'T', [a1, a2], []), rules, exp)
            yield ('two-params/kw', ('call', 'T', [], [('p', a1), ('q', a2)]), rules, exp)
            yield ('two-params/kw-swapped', ('call', 'T', [], [('q', a2), ('p', a1)]), rules, exp)
            yield ('two-params/mixed', ('call', 'T', [a1], [('q', a2)]), rules, exp)
    # the same template instantiated twice with different arguments at the same position
    pairs = [(A, B), (A, ('re', 'a')), (('seq', A, B), ('seq', A, C)), (('ref', 'X'), ('ref', 'K')), (A, ('stri', 'a'))]
    for x, y in pairs:
        for bn in ('p', '[p,p]', 'p*'):
            body = PBODIES[bn]
            rules = [('T', ('rule', ['p'], body))] + BASE + ID
            tx, ty = call('T', [x], None), call('T', [y], None)
            ex, ey = subst(body, {'p': x}), subst(body, {'p': y})
            yield ('same-position', ('choice', ('seq', tx, C), ty), rules, ('choice', ('seq', ex, C), ey))
            yield ('same-position', ('seq', ('expect', ('opt', tx)), ('opt', ty)), rules, ('seq', ('expect', ('opt', ex)), ('opt', ey)))
            yield ('same-position', ('longest', tx, ty), rules, ('longest', ex, ey))
            yield ('same-position', ('seq', ('expectnot', tx), ty), rules, ('seq', ('expectnot', ex), ey))
    vpairs = [('1', 'True'), ('0', 'False'), ('1', '1.0'), ("'a'", "'b'"), ('[1]', '[2]'), ('None', '0'), ('(1,)', '[1]'),
              # different values with equal hashes
              ('-1', '-2'), ('[0, 1, 2]', '[2, 1, 0]'), ('[1, 2]', '[2, 1]'), ("{'a': 1, 'b': 2}", "{'b': 1, 'a': 2}"),
              ('[[1], 2]', '[[2], 1]')]
    for x, y in vpairs:
        body = VBODIES['val']
        rules = [('T', ('rule', ['p'], body))] + BASE + ID
        tx, ty = call('T', [('py', x)], None), call('T', [('py', y)], None)
        ex, ey = subst(body, {'p': ('py', x)}), subst(body, {'p': ('py', y)})
        yield ('same-position-values', ('seq', ('expect', ('opt', tx)), ('opt', ty)), rules, ('seq', ('expect', ('opt', ex)), ('opt', ey)))
        yield ('same-position-values', ('choice', ('seq', tx, C), ty), rules, ('choice', ('seq', ex, C), ey))
    # nested and recursive instantiation
    for arg in (A, ('re', '[ab]'), ('seq', A, B), ('ref', 'X')):
        rules = [('T', ('rule', ['p'], ('call', 'U', [('seq', P, C)], []))), ('U', ('rule', ['q'], ('seq', Q, Q)))] + BASE + ID
        yield ('two-level', call('T', [arg], None), rules, ('seq', ('seq', arg, C), ('seq', arg, C)))
        rules = [('T', ('rule', ['p'], ('call', 'U', [P], [('r', ('choice', P, C))]))), ('U', ('rule', ['q', 'r'], ('seq', Q, ('star', ('ref', 'r')))))] + BASE + ID
        yield ('two-level-kw', call('T', [arg], None), rules, ('seq', arg, ('star', ('choice', arg, C))))
        rules = [('T', ('rule', ['p'], ('seq', P, ('opt', ('call', 'T', [P], [])))))] + BASE + ID
        yield ('recursive', call('T', [arg], None), rules, None)
        rules = [('T', ('rule', ['p'], ('seq', P, ('opt', ('call', 'T', [('seq', P, C)], [])))))] + BASE + ID
        yield ('recursive-growing', call('T', [arg], None), rules, None)
    # higher-order templates: a template passed as an argument and called through the parameter
    WRAP = [('Wrap', ('rule', ['p'], ('seq', ('str', 'c'), P))), ('Dup', ('rule', ['p'], ('seq', P, P)))]
    for f in ('Wrap', 'Dup'):
        for arg in (A, ('re', '[ab]'), ('ref', 'X')):
            for kw in (None, ('f', 'x')):
                rules = [('Twice', ('rule', ['f', 'x'], ('call', 'f', [('call', 'f', [('ref', 'x')], [])], []))),
                         ('Once', ('rule', ['f', 'x'], ('call', 'f', [], [('p', ('ref', 'x'))])))] + WRAP + BASE + ID
                yield ('higher-order/%s' % ('kw' if kw else 'pos'), call('Twice', [('ref', f), arg], kw), rules, None)
                yield ('higher-order/%s' % ('kw' if kw else 'pos'), call('Once', [('ref', f), arg], kw), rules, None)
    # a mutable value argument: every instantiation evaluates the argument anew (a list filled by the body is a new list each
    # time the call is reached: in a loop, at two sites, in the next parse)
    fill = ('right', ('star', ('apply', ('re', '[ab]'), ('py', 'acc.append'))), ('py', 'acc'))
    for arg in ('[]', 'list()', '[0][:0]'):
        rules = [('T', ('rule', ['acc'], fill))] + BASE + ID
        t = call('T', [('py', arg)], None)
        yield ('mutable-value-arg', ('star', ('left', t, C)), rules, None)
        yield ('mutable-value-arg', ('seq', t, ('opt', C), t), rules, None)
        yield ('mutable-value-arg', ('choice', ('seq', t, C, C), ('seq', t, C)), rules, None)
    # a parameter re-bound by an inner let and used again after that let has ended (directly and inside a compound argument)
    for arg in (A, ('re', '[ab]'), ('ref', 'X'), ('seq', A, B)):
        for body in (('seq', ('let', 'p', C, ('py', 'p')), ('call', 'ID', [('seq', P, C)], []), P),
                     ('seq', ('opt', ('let', 'p', C, P)), P, ('call', 'ID', [('left', P, ('opt', C))], [])),
                     ('seq', ('let', 'p', ('re', '[bc]'), ('py', 'p')), ('star', P))):
            for kw in (None, ('p',)):
                yield ('param-rebound-by-let/%s' % ('kw' if kw else 'pos'), call('T', [arg], kw), [('T', ('rule', ['p'], body))] + BASE + ID, None)
    # objects of two classes with the same field names and values as value arguments at one position
    KK = [('KK', ('class', None, [('k', False, A)]))]
    for body in (('seq', ('py', 'p'), ('opt', B)), ('seq', ('opt', B), ('py', '[p]'))):
        rules = [('T', ('rule', ['p'], body))] + KK + BASE + ID
        t = call('T', [('ref', 'w')], None)
        yield ('look-alike-objects', ('choice', ('left', ('let', 'w', ('ref', 'K'), t), C), ('let', 'w', ('ref', 'KK'), t)), rules, None)
        yield ('look-alike-objects', ('seq', ('expect', ('let', 'w', ('ref', 'KK'), t)), ('let', 'w', ('ref', 'K'), t)), rules, None)
    # class templates
    for a1, a2 in ((A, ('re', '[bc]')), (('seq', A, B), ('ref', 'X')), (('ref', 'K'), C)):
        cls = ('class', ['p', 'q'], [('x', False, P), ('y', False, ('star', Q))])
        rules = [('Cl', cls)] + BASE + ID
        yield ('class-template/pos', ('call', 'Cl', [a1, a2], []), rules, None)
        yield ('class-template/kw', ('call', 'Cl', [], [('q', a2), ('p', a1)]), rules, None)
        yield ('class-template/star', ('star', ('call', 'Cl', [a1, a2], [])), rules, None)
    for v in VARGS.values():
        cls = ('class', ['n'], [('x', False, A), ('v', False, ('py', 'n'))])
        yield ('class-template/value', ('call', 'Cl', [v], []), [('Cl', cls)] + BASE + ID, None)


def bytes_universe():
    a, b = ('byte', 0x61), ('str', b'b')
    p = ('ref', 'p')
    for bn, body in (('p', p), ('[p,p]', ('seq', p, p)), ('p*', ('star', p)), ('val', ('seq', p, ('py', 'p')))):
        for arg in (a, b, ('re', '[ab]'), ('seq', a, b)):
            if bn == 'val' and arg[0] not in ('byte', 'str'):
                continue
            for kw in (None, ('p',)):
                yield ('bytes-arg', call('T', [arg], kw), [('T', ('rule', ['p'], body))], None)


def jobs(tier):
    inp = 'abc:5' if tier == 'quick' else 'abc:6'
    for tag, start, rules, exp in universe(tier):
        allrules = [('start', ('rule', None, start))] + rules
        mods = [(tuple(allrules), (), 'start', None, (), False, 'named', None)]
        for named in (False, True):
            yield {'mods': mods, 'inputs': inp, 'mode': 'simple', 'tag': tag + ('/named' if named else ''),
                   'named': named, 'pyraise': tag.startswith('lazy-nested-call')}
        if exp is not None:
            # differential oracle: the hand-expanded grammar, compiled by sourcer, against the same model
            erules = [('start', ('rule', None, exp))] + [r for r in rules if r[0] in ('X', 'K', 'ID')]
            desc = render.spec(Spec(erules))
            yield {'mods': mods, 'inputs': inp, 'mode': 'simple', 'tag': tag.split('/')[0] + '/EXPANSION',
                   'descs': [desc]}
    for tag, start, rules, exp in bytes_universe():
        allrules = [('start', ('rule', None, start))] + rules
        mods = [(tuple(allrules), (), 'start', None, (), True, 'named', None)]
        for named in (False, True):
            yield {'mods': mods, 'inputs': 'abc:4', 'mode': 'simple', 'tag': tag + ('/named' if named else ''), 'named': named}


def run(tier, seed):
    chk = Check('C06', tier, seed)
    chk.rule = ('template bodies (7 parsing the parameter, 2 using it as a value, two-parameter, two-level, recursive, class templates) x '
                'argument shapes (10 parsing expressions incl. rule/class names and nested calls, 7 inline-Python values incl. unhashable ones, '
                '6 earlier results of each type, 4 arguments mentioning call-site names) x positional/keyword/mixed passing x the same '
                'template instantiated twice at one position (5 parser pairs, 7 value pairs incl. 1/True) x {unnamed, named grammar} x text/bytes, '
                'all inputs over {a,b,c} up to length 4/5; two oracles: the reference model (by-name / by-value closures) and the '
                'hand-expanded grammar compiled by sourcer; non-trivial = the model run needed a restore')
    chk.assumptions = ['reference interpreter; expansion by substitution without capture (vf/props/c06.py:subst)']
    chk.explore(e1.run_job, jobs(tier), chunk=4)
    return chk.finish(floor=1000)


def replay(case):
    return e1.replay_case(case, 'simple')
