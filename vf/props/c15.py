"""C15 - visit and traverse enumerate the whole tree, once, in order (DESIGN 3/C15)."""
import sys

from .. import impl, ox
from ..core import Check, case_key

KINDS = ['K0', 'K1', 'K2', 'list', 'tuple', 'dict', 'Infix']
KINDS_T = ['K1', 'K2', 'list', 'tuple', 'dict']
NSLICES = 64


def universe(tier):
    if tier == 'quick':
        return list(ox.scripts(4, KINDS, leaves=ox.LEAVES + [('bytes', b'ab')]))
    return list(ox.scripts(5, KINDS_T, leaves=[('none',), ('int', 1), ('dstr', 'xy'), ('bytes', b'ab')]))


def init():
    return {'g': ox.host()}


def ref_visit(g, root):
    seen = set()
    out = []

    def rec(x):
        if ox.is_po(g, x):
            if id(x) in seen:
                return
            seen.add(id(x))
            out.append(id(x))
        for _, c in ox.children(g, x):
            rec(c)
    rec(root)
    return out


def ref_traverse(g, root):
    seen = set()
    out = []

    def rec(parent, field, x):
        pid = id(parent) if parent is not None else None
        out.append((pid, field, id(x), False))
        if isinstance(x, (list, tuple, dict)) or ox.is_po(g, x):
            if id(x) not in seen:
                seen.add(id(x))
                for f, c in ox.children(g, x):
                    rec(x, f, c)
        out.append((pid, field, id(x), True))
    rec(None, None, root)
    return out


def impl_traverse(g, root):
    return [(id(t.parent) if t.parent is not None else None, t.field, id(t.child), t.is_finished)
            for t in g.traverse(root)]


def first_diff(a, b):
    for i, (x, y) in enumerate(zip(a, b)):
        if x != y:
            return i
    return min(len(a), len(b))


def graph_job(job, st):
    tier, k = job
    g = st['g']
    res = {'ctr': {'cases': 0, 'nontrivial': 0, 'states': 0, 'transitions': 0}, 'sets': {}, 'viol': [], 'viol_keys': []}
    sigs = set()
    scripts = st.setdefault('u_' + tier, universe(tier))
    for idx in range(k, len(scripts), NSLICES):
        script = scripts[idx]
        objs = ox.construct(script, g)
        r = objs[-1]
        res['ctr']['states'] += 1
        refs = [i for s in script for i in s[1:] if isinstance(i, int)] + [i for s in script if s[0] == 'dict' for _, i in s[1:]]
        if len(set(refs)) < len(refs) or sum(1 for s in script if s[0] in ('none', 'int', 'str', 'bytes')) > 1:
            res['ctr']['nontrivial'] += 1
        for name, fi, fr in (('visit', lambda: [id(x) for x in g.visit(r)], lambda: ref_visit(g, r)),
                             ('traverse', lambda: impl_traverse(g, r), lambda: ref_traverse(g, r))):
            res['ctr']['cases'] += 1
            try:
                got = fi()
                why = None
            except Exception as x:
                got = None
                why = 'EXC:%s' % type(x).__name__
            exp = fr()
            res['ctr']['transitions'] += len(exp)
            if why is None and got != exp:
                if len(got) < len(exp):
                    why = 'events-missing'
                elif len(got) > len(exp):
                    why = 'extra-events'
                else:
                    why = 'order-or-fields'
            if why:
                sig = '%s %s' % (name, why)
                case = {'script': [list(map(str, s)) for s in script], 'op': name}
                key = case_key(case)
                res['viol_keys'].append((key, sig))
                if sig not in sigs:
                    sigs.add(sig)
                    res['viol'].append({'sig': sig, 'key': key, 'case': {'script': script, 'op': name},
                                        'expected': '%d events' % len(exp),
                                        'got': ('%d events, first difference at %d' % (len(got), first_diff(got, exp))) if got is not None else why})
    res['sample'] = {'script': scripts[k] if k < len(scripts) else None}
    return res


def deep_job(job, st):
    """chains deeper than the recursion limit, built iteratively"""
    _, kind, depth = job
    g = st['g']
    res = {'ctr': {'cases': 0, 'nontrivial': 0, 'states': 0, 'transitions': 0}, 'sets': {}, 'viol': [], 'viol_keys': []}
    nodes = []
    cur = None
    for i in range(depth):
        if kind == 'K1':
            cur = g.K1(cur)
        elif kind == 'list':
            cur = [cur]
        elif kind == 'mixed':
            cur = g.K2([cur], {'k': i}) if i % 2 else (cur, g.K1(None))
        elif kind == 'infix':
            cur = g.Infix(cur, '+', None)
        nodes.append(cur)
    root = cur
    why = None
    sys.setrecursionlimit(1000)
    try:
        vis = [id(x) for x in g.visit(root)]
        tr = impl_traverse(g, root)
    except RecursionError:
        why = 'RecursionError'
        vis = tr = None
    finally:
        sys.setrecursionlimit(10000)
    res['ctr']['cases'] += 2
    res['ctr']['states'] += depth
    res['ctr']['nontrivial'] += 2
    if why is None:
        # iterative reference for visit: pre-order, objects only
        exp = []
        stack = [root]
        seen = set()
        while stack:
            x = stack.pop()
            if ox.is_po(g, x):
                if id(x) in seen:
                    continue
                seen.add(id(x))
                exp.append(id(x))
            stack.extend(reversed([c for _, c in ox.children(g, x)]))
        if vis != exp:
            why = 'visit-deep'
        # traverse: properly nested, every enter has its finish, count = 2 * (1 + number of slots)
        slots = 0
        stack = [root]
        seenc = set()
        while stack:
            x = stack.pop()
            if isinstance(x, (list, tuple, dict)) or ox.is_po(g, x):
                if id(x) in seenc:
                    continue
                seenc.add(id(x))
                ch = [c for _, c in ox.children(g, x)]
                slots += len(ch)
                stack.extend(ch)
        res['ctr']['transitions'] += 2 * (1 + slots)
        if why is None and len(tr) != 2 * (1 + slots):
            why = 'traverse-deep-count'
        if why is None:
            open_ = []
            for ev in tr:
                if not ev[3]:
                    open_.append(ev[:3])
                else:
                    if not open_ or open_.pop() != ev[:3]:
                        why = 'traverse-deep-nesting'
                        break
            if why is None and open_:
                why = 'traverse-deep-nesting'
    if why:
        case = {'deep': kind, 'depth': depth}
        res['viol'].append({'sig': 'deep-%s %s' % (kind, why), 'case': case, 'expected': 'no recursion, complete enumeration', 'got': why})
    res['sample'] = {'deep_chain': kind, 'depth': depth}
    return res


def dispatch(job, st):
    if job[0] == 'deep':
        return deep_job(job, st)
    return graph_job(job[1:], st)


def run(tier, seed):
    chk = Check('C15', tier, seed)
    chk.rule = ('all rooted object DAGs with <=4 (thorough <=5, reduced alphabet) nodes, every child slot new or a back-reference '
                '(shared objects, shared containers, the same leaf object in several slots, equal-but-distinct leaves); visit and '
                'traverse compared event by event (identity of parent/child, field) with recursive reference definitions; plus '
                'chains of depth 10^4 (thorough 10^5) of 4 shapes under the default recursion limit; non-trivial = graphs with '
                'sharing or repeated identical leaves')
    chk.assumptions = ['reference definitions in vf/props/c15.py (reading: a shared container is expanded only at its first occurrence, every slot yields its pair of events)']
    depth = 10 ** 4 if tier == 'quick' else 10 ** 5
    jobs = [('graphs', tier, k) for k in range(NSLICES)] + [('deep', kind, depth) for kind in ('K1', 'list', 'mixed', 'infix')]
    chk.explore(dispatch, jobs, init=init, chunk=1, job_deadline=900)
    return chk.finish(floor=1000)


def replay(rep):
    g = ox.host()
    case = rep['case']
    if 'deep' in case:
        r = deep_job(('deep', case['deep'], case['depth']), {'g': g})
        print(r['viol'] or 'ok')
        return 1 if r['viol'] else 0
    script = [tuple(tuple(x) if isinstance(x, list) else x for x in s) for s in case['script']]
    r = ox.construct(script, g)[-1]
    print('root:', repr(r))
    ok = [id(x) for x in g.visit(r)] == ref_visit(g, r) and impl_traverse(g, r) == ref_traverse(g, r)
    print('traverse events:', len(list(g.traverse(r))), 'expected', len(ref_traverse(g, r)))
    return 0 if ok else 1
