"""C18 - parse calls are isolated from each other (DESIGN 3/C18, engine E3)."""
import itertools
import sys
import threading

from .. import e1, impl, sx
from ..core import Check, case_key

DESC = r'''%(head)s
```
import threading as _threading
HOOKS = {}
def cb(v):
    h = HOOKS.get(_threading.get_ident())
    return h(v) if h else v
```
ignore / +/
start = Item*
Item = Pair | W | T("-") | Plus
class W { w: /[ab\n]+/ |> `cb` }
class Pair { k: W << ":"; v: W }
T(p) = p >> W
Plus = T2(W)
T2(p) = "+" >> p
Bx = Pair |> `cb`
Acc = let acc = `[]` in (/[ab]/ |> `acc.append`)* >> `acc`
class Tg(n) { t: `repr(n)`; w: W }
'''
OTHER = 'start = Num*\nignore / +/\nclass Num { n: /[0-9]+/ |> `int` }\n'
CHILD = ('grammar %(child)s extends %(parent)s\nignore /~+/\nclass W { w: /[abc]+/ }\nItem = Pair | W | T("-") | Plus\nExtra = "z"\n')
# (the derived grammar reaches the inherited rule Plus, whose call passes the rule W that it overrides)
CHILD_TEXTS = ['-~ab c:~a', 'a:b -c', '-ab +cb b:a', 'q:a -q']
# a revision of the scenario grammar, compiled under the same name (W also accepts q)
DESC2 = DESC.replace('/[ab\\n]+/', '/[abq\\n]+/').replace('ignore / +/\n', 'Qq = "q"\n')
assert DESC2 != DESC and 'ignore' not in DESC2      # (structurally different: no ignore declaration, one more rule)

# the calls: (entry, text, pos, fullparse)
CALLS = [
    (None, 'a:b ab', 0, True),
    (None, 'a: !', 0, True),            # fails
    (None, ' b\na:a !', 1, True),       # offset, multi-line, partial
    ('W', 'ab', 0, True),
    ('Bx', 'a:b a:', 0, True),          # partial; the callback of Bx receives an object of the running parse
    (None, '-ab +b\nb b:a', 0, False),  # through Plus = T2(W): a rule passed as argument (a derived grammar overrides W)
    ('Pair', 'a\nb:b', 0, True),         # a class as entry point (a derived grammar inherits it and overrides W)
    ('Acc', 'abb', 0, True),             # inline Python builds and fills a fresh list per parse
    (None, '-~ab', 0, True),             # text that only a derived grammar (with its own ignore) accepts further
]


# a parameterised class as entry point, requested with equal but distinguishable arguments: (entry, text, pos, fullparse, args)
TG_CALLS = [('Tg', 'ab', 0, True, (1,)), ('Tg', 'ab', 0, True, (True,)), ('Tg', 'ab', 0, True, (1.0,)), ('Tg', 'b', 0, True, ([1],)),
            ('Tg', 'b', 0, True, ([True],))]


# calls made on a module compiled in the middle of a history: the scenario calls and texts that fail at many different
# expressions of the grammar (the report names the expression; outcomes are compared including the message)
FRESH_CALLS = CALLS + [(None, t, 0, True) for t in ('', ':', 'a:', '-', '- ', '-:', 'a:b:', 'q', 'a q', 'a:-', '-a:', 'a\n:', 'a:b -', 'ab !')] + [
    ('W', '', 0, True), ('W', 'q', 0, True), ('Pair', 'a', 0, True), ('Pair', 'a:', 0, True), ('Pair', ':', 0, True),
    ('Acc', 'q', 0, True), ('Tg', 'q', 0, True, (1,)), ('Tg', '', 0, True, (1,))]


def fails_grammar(shift=0, odd=False):
    """an unrelated grammar full of `... | Fail(message)` choices of different widths; `shift` / `odd` put rules in front so
    that over the variants the Fail expressions take every expression number from 6 up"""
    rows = ['D%d = "d"' % i for i in range(shift)] + (['Dq = "d"?'] if odd else [])
    for k in range(48):
        real = ' | '.join('"%s%d"' % ('pqrs'[i], k) for i in range(1 + k % 4))
        rows.append('R%d = %s | Fail("expected item %d")' % (k, real, k))
    return 'start = R0\n' + '\n'.join(rows) + '\n'


REJECTED = ['start = = "a"\n', 'grammar %(uid)s_x extends no_such_parent_%(uid)s\nstart = "a"\n', 'start = "a"\nstart = "b"\n',
            'start = Undefined(\n']


def settings():
    """interpreter-wide settings that a parse can observe (how deep it may recurse, when threads switch)"""
    return (sys.getrecursionlimit(), sys.getswitchinterval(), threading.stack_size(), sys.gettrace() is None)


class Boom(Exception):
    pass


def build(named=None):
    b = impl.build(DESC % {'head': ('grammar %s' % named) if named else ''})
    if b[0] != 'OK':
        raise RuntimeError('scenario grammar does not compile: %r' % (b,))
    return b[1]


def outcome(g, call, raising=False, keep_text=False):
    ent, text, pos, full = call[:4]
    parse = impl.entry(g, ent)
    if len(call) > 4:
        parse = parse(*call[4])
    ident = threading.get_ident()
    if raising:
        def hook(v):
            raise Boom()
        g.HOOKS[ident] = hook
    try:
        in_main = threading.current_thread() is threading.main_thread()
        o = impl.run(parse, text if keep_text else e1.fresh(text), pos, full, spans=True, time_limit=5.0 if in_main else None)
    finally:
        if raising:
            g.HOOKS.pop(ident, None)
    return (o['kind'], o.get('value'), o.get('index'), o.get('line'), o.get('column'), o.get('message'), o.get('type'))


def baseline():
    """every call alone on a freshly built module"""
    base = {}
    for i, c in enumerate(CALLS):
        base[i] = outcome(build(), c)
    base['raise'] = outcome(build(), CALLS[0], raising=True)
    for i, c in enumerate(TG_CALLS):
        base[('tg', i)] = outcome(build(), c)
    g = build()
    base['fresh'] = [outcome(g, c) for c in FRESH_CALLS]
    # the derived grammar, used alone right after it was built on a fresh base
    for variant in ('v1', 'v2'):
        for j, t in enumerate(CHILD_TEXTS):
            uid = e1.unique_name('c18b')
            if variant == 'v1':
                build(uid)
            else:
                impl.build(DESC2 % {'head': 'grammar %s' % uid})
            b = impl.build(CHILD % {'child': uid + '_child', 'parent': uid})
            if b[0] != 'OK':
                raise RuntimeError('child grammar does not compile: %r' % (b,))
            base[('child', variant, j)] = outcome(b[1], (None, t, 0, True))
            impl.uninstall(uid + '_child')
            impl.uninstall(uid)
    return base


def init():
    return {'base': baseline()}


def new_res():
    return {'ctr': {'cases': 0, 'nontrivial': 0, 'states': 0, 'transitions': 0}, 'sets': {'outcomes': set(), 'state_hashes': set()},
            'viol': [], 'viol_keys': []}


def add_viol(res, sigs, sig, case, expected, got):
    key = case_key(case)
    res['viol_keys'].append((key, sig))
    if sig not in sigs:
        sigs.add(sig)
        res['viol'].append({'sig': sig, 'key': key, 'case': case, 'expected': repr(expected)[:300], 'got': repr(got)[:300]})


def state_hash(g):
    import re as _re
    items = []
    norm = lambda k: _re.sub(r'(vfm|c18[a-z]?)_\d+_\d+(_child|_c)?', 'U', k)      # per-history unique grammar names
    for k, v in sorted((norm(k), v) for k, v in vars(g).items()):
        if k == 'HOOKS':
            items.append((k, len(v)))
        elif isinstance(v, str):
            items.append((k, 'str'))            # (module names / docstrings contain the per-history unique name)
        elif isinstance(v, (int, bool, type(None))):
            items.append((k, repr(v)[:40]))
        elif isinstance(v, (dict, list, set)):
            items.append((k, type(v).__name__, len(v)))
        else:
            items.append((k, type(v).__name__))
    ctx = getattr(g, '_ctx', None)
    if ctx is not None:
        items.append(('_ctx', tuple(sorted(norm(k) for k in vars(ctx)))))
    return hash(tuple(items))


# --- (i) histories ------------------------------------------------------------------------------------
def history_ops():
    return ([('call', i) for i in range(len(CALLS))] + [('raise',), ('build-other',), ('rebuild-same-name',), ('build-child',)]
            + [('use-child', j) for j in range(len(CHILD_TEXTS))])


NAME_OPS = [('build-child',), ('rebuild-same-name',), ('use-child', 0), ('use-child', 3), ('call', 0)]
# equal-but-distinguishable arguments of a parameterised entry point; compilations (accepted, rejected, full of Fail
# choices) against a later compilation of the scenario description itself
ARG_OPS = [('tg', i) for i in range(len(TG_CALLS))] + [('call', 3), ('raise',)]
COMPILE_OPS = [('build-fails',), ('fresh-build',), ('build-other',), ('call', 1), ('raise',)] + [('build-rejected', k) for k in range(len(REJECTED))]
OPSETS = {'names': NAME_OPS, 'args': ARG_OPS, 'compile': COMPILE_OPS}


def history_job(job, st):
    if len(job) > 3 and job[3] == 'compile':
        # run these histories under the interpreter's default recursion limit (the harness raises it on import)
        old = sys.getrecursionlimit()
        sys.setrecursionlimit(1000)
        try:
            return history_job_(job, st)
        finally:
            sys.setrecursionlimit(old)
    return history_job_(job, st)


def history_job_(job, st):
    _, first_op, depth = job[:3]
    base = st['base']
    res = new_res()
    sigs = set()
    ops = OPSETS[job[3]] if len(job) > 3 else history_ops()
    env0 = settings()
    explicit = tuple(job[4]) if len(job) > 4 else None       # replay: exactly this continuation
    for L in range(1, depth + 1):
        for rest in (itertools.product(ops, repeat=L - 1) if explicit is None else ([explicit] if L == len(explicit) + 1 else [])):
            hist = (first_op,) + rest
            uid = e1.unique_name('c18h')
            g = build(uid)
            child = None
            installed = 'v1'          # which description the name denotes at the moment
            child_variant = None
            nchild = 0
            res['ctr']['states'] += 1
            try:
                for k, op in enumerate(hist):
                    res['ctr']['transitions'] += 1
                    if op[0] == 'call':
                        got = outcome(g, CALLS[op[1]])
                        exp = base[op[1]]
                    elif op[0] == 'raise':
                        got = outcome(g, CALLS[0], raising=True)
                        exp = base['raise']
                    elif op[0] == 'tg':
                        got = outcome(g, TG_CALLS[op[1]])
                        exp = base[('tg', op[1])]
                    elif op[0] == 'build-fails':
                        got = exp = None
                        for shift in range(4):
                            for odd in (False, True):
                                b = impl.build(fails_grammar(shift, odd))
                                if b[0] != 'OK':
                                    got, exp = b, 'module'
                    elif op[0] == 'build-rejected':
                        b = impl.build(REJECTED[op[1]] % {'uid': uid})
                        got = exp = None
                        if b[0] == 'OK':
                            got, exp = 'module', 'rejected description'
                    elif op[0] == 'fresh-build':
                        # the scenario description compiled again now: same outcomes (incl. failure reports) as on a module compiled first
                        b = impl.build(DESC % {'head': ''})
                        if b[0] != 'OK':
                            got, exp = b, 'module'
                        else:
                            got, exp = [outcome(b[1], c) for c in FRESH_CALLS], base['fresh']
                            res['ctr']['cases'] += len(FRESH_CALLS) - 1
                    elif op[0] == 'build-other':
                        b = impl.build(OTHER)
                        got = exp = None
                        if b[0] != 'OK':
                            got, exp = b, 'module'
                    elif op[0] == 'rebuild-same-name':
                        # a new grammar reusing the name (different description): the existing module object must not change
                        b = impl.build(DESC2 % {'head': 'grammar %s' % uid})
                        got = exp = None
                        installed = 'v2'
                        if b[0] != 'OK':
                            got, exp = b, 'module'
                    else:
                        # a grammar that extends this one (by name: only meaningful while the name still denotes it)
                        got = exp = None
                        if op[0] == 'build-child':
                            # a grammar extending whatever the name denotes now (a new child every time)
                            nchild += 1
                            b = impl.build(CHILD % {'child': '%s_child%d' % (uid, nchild), 'parent': uid})
                            if b[0] != 'OK':
                                got, exp = b, 'module'
                            else:
                                child, child_variant = b[1], installed
                        elif child is not None:
                            # use the derived grammar: it behaves as when built and used alone on the description it
                            # extended, whatever happened to that name before or since
                            got = outcome(child, (None, CHILD_TEXTS[op[1]], 0, True))
                            exp = base[('child', child_variant, op[1])]
                    res['ctr']['cases'] += 1
                    if k > 0:
                        res['ctr']['nontrivial'] += 1
                    res['sets']['outcomes'].add(repr(got)[:200])
                    if got == exp and settings() != env0:
                        got, exp = ('interpreter settings (recursion limit, switch interval, stack size, trace)', settings()), ('unchanged', env0)
                        try:
                            sys.setrecursionlimit(env0[0])
                            sys.setswitchinterval(env0[1])
                        except Exception:
                            pass
                    if got != exp:
                        case = {'history': [list(o) for o in hist[:k + 1]], 'scenario': 'single grammar'}
                        add_viol(res, sigs, 'history outcome-depends-on-earlier-operations (%s after %s)' % (op[0], hist[k - 1][0] if k else 'start'),
                                 case, exp, got)
                        if got and got[0] == 'DIVERGES':
                            res['_retire'] = True
                            return res          # a runaway call: nothing after it can be trusted, abandon the job
                res['sets']['state_hashes'].add(state_hash(g))
            finally:
                for k in range(1, nchild + 1):
                    impl.uninstall('%s_child%d' % (uid, k))
                impl.uninstall(uid)
    res['sample'] = {'history': [list(o) for o in ((first_op,) + tuple(ops[:depth - 1]))], 'calls': [list(map(repr, c)) for c in CALLS[:3]]}
    return res


# --- (ii) schedules -------------------------------------------------------------------------------------
def body_for(g, base, spec, shared=None):
    if spec[0] == 'call':
        if shared is not None:
            # both threads parse the SAME text object
            ent, text, pos, full = CALLS[spec[1]]
            return lambda: outcome(g, (ent, shared, pos, full), keep_text=True)
        return lambda: outcome(g, CALLS[spec[1]])
    if spec[0] == 'raise':
        return lambda: outcome(g, CALLS[0], raising=True)
    if spec[0] == 'build-other':
        def f():
            b = impl.build(OTHER)
            return None if b[0] == 'OK' else b
        return f
    if spec[0] == 'rebuild':
        def f():
            b = impl.build(DESC % {'head': ''})
            if b[0] != 'OK':
                return b
            # the module just built must itself behave like a fresh one
            o = outcome(b[1], CALLS[0])
            return None if o == base[0] else ('rebuilt-module-differs', o)
        return f
    raise Exception(spec)


def expected_for(base, spec):
    if spec[0] == 'call':
        return base[spec[1]]
    if spec[0] == 'raise':
        return base['raise']
    return None


def schedule_job(job, st):
    _, specs, bound, opcodes = job[:4]
    part = job[4] if len(job) > 4 else (0, 1)
    base = st['base']
    res = new_res()
    sigs = set()
    g = build()
    files = {g.parse.__code__.co_filename}
    n = len(specs)
    expected = [expected_for(base, s) for s in specs]
    cache = {}

    same = len(specs) == 2 and specs[0] == specs[1] and specs[0][0] == 'call'
    shared = e1.fresh(CALLS[specs[0][1]][1]) if same else None
    warm = CALLS[1] if not (same and specs[0][1] == 1) else CALLS[0]

    def execute(first, sched):
        # every execution starts from a module that has just parsed a different text
        outcome(g, warm)
        ex = sx.Execution([body_for(g, base, s, shared) for s in specs], files, sched, opcodes)
        results, steps, trace = ex.run(first)
        return results, steps, trace, ex.hung

    def steps_of(first, sched):
        key = (first, tuple(sorted(sched.items())))
        if key not in cache:
            cache[key] = execute(first, sched)[1]
        return cache[key]

    import time as _time
    t_job = _time.time()
    for first, sched in sx.schedules(n, steps_of, bound, part):
        if _time.time() - t_job > 400:
            res['ctr']['schedule_jobs_cut_by_wall_cap'] = 1      # reported as a cap: not exhaustive
            break
        results, steps, trace, hung = execute(first, sched)
        res['ctr']['cases'] += 1
        res['ctr']['states'] += 1
        res['ctr']['transitions'] += sum(steps)
        if trace:
            res['ctr']['nontrivial'] += 1
        res['sets']['outcomes'].add(repr(results)[:300])
        bad = hung or any(r != e for r, e in zip(results, expected))
        if hung or any(r and r[0] in ('DIVERGES', 'HANG') for r in results):
            case = {'threads': [list(map(str, s)) for s in specs], 'first': first,
                    'schedule': [[list(k), v] for k, v in sorted(sched.items())], 'opcodes': opcodes}
            add_viol(res, sigs, 'schedule call-does-not-terminate', case, expected, results)
            res['_retire'] = True               # a runaway thread may be left behind: retire this worker
            return res
        if bad:
            # believe it only if the same schedule replays identically twice
            r2 = execute(first, sched)
            r3 = execute(first, sched)
            case = {'threads': [list(map(str, s)) for s in specs], 'first': first,
                    'schedule': [[list(k), v] for k, v in sorted(sched.items())], 'opcodes': opcodes}
            if (r2[0], r2[2]) != (r3[0], r3[2]):
                add_viol(res, sigs, 'schedule NONDETERMINISTIC-REPLAY (harness)', case, 'identical replays', 'divergence')
            else:
                k = next((i for i in range(n) if results[i] != expected[i]), 0)
                add_viol(res, sigs, 'schedule outcome-depends-on-interleaving (%s || %s, %d preemption(s))'
                         % (specs[0][0], specs[1][0], len(trace)), case, expected[k], results[k])
    res['sets']['state_hashes'].add(state_hash(g))
    res['sample'] = {'threads': [list(map(str, s)) for s in specs], 'preemption_bound': bound,
                     'scheduling_points_per_thread': cache.get((0, ()), None), 'granularity': 'opcode' if opcodes else 'line'}
    return res


# --- (iii) re-entrancy and aborts at every callback point ----------------------------------------------
def wreck(g, v):
    """mutate a (discarded) nested result in place: reverse and empty lists, overwrite fields"""
    seen = set()
    todo = [v]
    while todo:
        x = todo.pop()
        if id(x) in seen:
            continue
        seen.add(id(x))
        if isinstance(x, list):
            todo.extend(x)
            x.reverse()
            del x[1:]
        elif isinstance(x, tuple):
            todo.extend(x)
        elif impl.is_obj(x):
            for f in x._fields:
                todo.append(getattr(x, f))
                try:
                    setattr(x, f, 'WRECKED')
                except Exception:
                    pass


def reentrancy_job(job, st):
    _, ci, pairs = job
    base = st['base']
    res = new_res()
    sigs = set()
    g = build()
    ident = threading.get_ident()
    call = CALLS[ci]
    cnt = [0]

    def counter(v):
        cnt[0] += 1
        return v
    g.HOOKS[ident] = counter
    outcome(g, call)
    g.HOOKS.pop(ident, None)
    ncb = cnt[0]
    # nested-same: the nested parse is given the VERY text object the outer call is parsing (same entry), and its
    # result is then mutated in place and discarded: the outer result must not notice
    devs = ([('nested-discard', i) for i in range(len(CALLS))] + [('nested-embed', i) for i in range(len(CALLS))]
            + [('raise', 0), ('nested-same', ci), ('compile', 0), ('compile', 1), ('nested-wrap', 0)])
    outer_text = e1.fresh(call[1])
    points = [(k,) for k in range(ncb)]
    if pairs:
        points += [(k1, k2) for k1 in range(ncb) for k2 in range(k1 + 1, ncb)]
    for pt in points:
        for devset in itertools.product(devs, repeat=len(pt)):
            idx = [0]
            inner_out = []

            def hook(v, pt=pt, devset=devset):
                i = idx[0]
                idx[0] += 1
                if i not in pt:
                    return v
                dev, arg = devset[pt.index(i)]
                if dev == 'raise':
                    raise Boom()
                g.HOOKS.pop(ident, None)
                if dev == 'nested-wrap':
                    # the callback returns the result of a nested parse with one field replaced by an object of the running
                    # parse (when it was handed one): all objects end up with converted positions
                    if not impl.is_obj(v):
                        g.HOOKS[ident] = hook
                        return v
                    res['ctr']['wrapped_objects'] = res['ctr'].get('wrapped_objects', 0) + 1
                    try:
                        return g.Pair.parse(e1.fresh('b:a'))._replace(k=v)
                    finally:
                        g.HOOKS[ident] = hook
                if dev == 'compile':
                    # a Grammar() construction started from inline Python in the middle of the parse
                    try:
                        impl.build(OTHER if arg == 0 else fails_grammar(1, True))
                    finally:
                        g.HOOKS[ident] = hook
                    return v
                try:
                    ent, text, pos, full = CALLS[arg]
                    t_in = outer_text if dev == 'nested-same' else e1.fresh(text)
                    o = impl.run(impl.entry(g, ent), t_in, pos, full, spans=True, time_limit=20.0, raw=True)
                    r = o.get('value')
                    inner_out.append((arg, (o['kind'], impl.canon(r, True) if o['kind'] in ('RET', 'PARTIAL') else None, o.get('index'),
                                            o.get('line'), o.get('column'), o.get('message'), o.get('type'))))
                    if dev == 'nested-same':
                        wreck(g, r)
                finally:
                    g.HOOKS[ident] = hook
                return v if dev in ('nested-discard', 'nested-same') else (v, r)
            g.HOOKS[ident] = hook
            o = outcome(g, (call[0], outer_text, call[2], call[3]), keep_text=True)
            g.HOOKS.pop(ident, None)
            res['ctr']['cases'] += 1
            res['ctr']['states'] += 1
            res['ctr']['transitions'] += 1 + len(inner_out)
            res['ctr']['nontrivial'] += 1
            res['sets']['outcomes'].add(repr(o)[:200])
            case = {'call': list(map(repr, call)), 'callback_points': list(pt), 'deviations': [list(d) for d in devset]}
            kinds = [d[0] for d in devset]
            if o[0] == 'DIVERGES' or any(io[0] == 'DIVERGES' for _, io in inner_out):
                add_viol(res, sigs, 're-entrancy call-does-not-terminate', case, base[ci], o)
                res['_retire'] = True
                return res
            for arg, io in inner_out:
                if io != base[arg]:
                    add_viol(res, sigs, 're-entrancy nested-call-outcome-differs', case, base[arg], io)
            if all(k in ('nested-discard', 'nested-same', 'compile') for k in kinds) and o != base[ci]:
                add_viol(res, sigs, 're-entrancy outer-call-disturbed-by-nested-parse', case, base[ci], o)
            if kinds == ['nested-wrap'] and o[0] in ('RET', 'PARTIAL') and 'RAWSPAN' in repr(o[1]):
                add_viol(res, sigs, 're-entrancy position-of-an-object-inside-a-nested-result-not-converted', case, 'line/column positions', o[1])
            if kinds == ['nested-wrap'] and o[0] != base[ci][0]:
                add_viol(res, sigs, 're-entrancy wrapping-into-a-nested-result-fails', case, base[ci][0], o)
            if 'raise' in kinds and 'nested-embed' not in kinds:
                first_raise = kinds.index('raise')
                if not (o[0] == 'EXC' and o[6] == 'Boom'):
                    add_viol(res, sigs, 're-entrancy exception-from-user-code-not-propagated', case, 'Boom', o)
            if 'nested-embed' in kinds and 'raise' not in kinds and o[0] in ('EXC', 'DIVERGES'):
                add_viol(res, sigs, 're-entrancy embedding-a-nested-result-fails (%s)' % o[6], case, 'a result', o)
            # afterwards every call still has its isolated outcome
            for j, c2 in enumerate(CALLS):
                res['ctr']['cases'] += 1
                o2 = outcome(g, c2)
                if o2 != base[j]:
                    add_viol(res, sigs, 're-entrancy later-call-differs-after-%s' % '+'.join(kinds), case, base[j], o2)
                    if o2[0] == 'DIVERGES':
                        res['_retire'] = True
                        return res
    res['sets']['state_hashes'].add(state_hash(g))
    res['sample'] = {'call': list(map(repr, call)), 'callback_points': ncb, 'deviations': [list(d) for d in devs[:3]] + ['...']}
    return res


# --- (i') histories over a base / derived pair ----------------------------------------------------------
PAIR_BASE = 'grammar %(b)s\nstart = Many("x")\nMany(p) = (p | "y")*\n'
PAIR_CHILD = 'grammar %(c)s extends %(b)s\nignore / +/\nstart = Many("x") << "!"?\n'
PAIR_OPS = [('base', 'xx'), ('base', 'x x'), ('base', 'xyx'), ('child', 'x x x!'), ('child', 'xx'), ('child', 'x y !')]


def pair_build():
    uid = e1.unique_name('c18p')
    b = impl.build(PAIR_BASE % {'b': uid})
    c = impl.build(PAIR_CHILD % {'b': uid, 'c': uid + '_c'})
    if b[0] != 'OK' or c[0] != 'OK':
        raise RuntimeError('pair scenario does not compile: %r %r' % (b, c))
    return uid, {'base': b[1], 'child': c[1]}


def pair_job(job, st):
    _, first, depth = job
    res = new_res()
    sigs = set()
    if 'pair_base' not in st:
        st['pair_base'] = {}
        for op in PAIR_OPS:
            uid, m = pair_build()
            st['pair_base'][op] = outcome(m[op[0]], (None, op[1], 0, True))
            impl.uninstall(uid + '_c')
            impl.uninstall(uid)
    base = st['pair_base']
    for L in range(1, depth + 1):
        for rest in itertools.product(PAIR_OPS, repeat=L - 1):
            hist = (first,) + rest
            uid, m = pair_build()
            res['ctr']['states'] += 1
            try:
                for k, op in enumerate(hist):
                    got = outcome(m[op[0]], (None, op[1], 0, True))
                    res['ctr']['cases'] += 1
                    res['ctr']['transitions'] += 1
                    if k:
                        res['ctr']['nontrivial'] += 1
                    if got != base[op]:
                        case = {'history': [list(o) for o in hist[:k + 1]], 'scenario': 'base without ignore / derived with ignore'}
                        add_viol(res, sigs, 'pair-history outcome-depends-on-earlier-use-of-the-other-module', case, base[op], got)
                        if got[0] == 'DIVERGES':
                            res['_retire'] = True
                            return res
            finally:
                impl.uninstall(uid + '_c')
                impl.uninstall(uid)
    res['sample'] = {'pair_history': [list(first)] + [list(o) for o in PAIR_OPS[:depth - 1]]}
    return res


def pair_schedule_job(job, st):
    """two threads parse ONE text object, one through the base grammar and one through the derived grammar"""
    _, text, bound = job
    res = new_res()
    sigs = set()
    uid, m = pair_build()
    try:
        files = {m['base'].parse.__code__.co_filename, m['child'].parse.__code__.co_filename}
        shared = e1.fresh(text)
        exp = [outcome(m['base'], (None, text, 0, True)), outcome(m['child'], (None, text, 0, True))]
        cache = {}

        def execute(first, sched):
            outcome(m['base'], (None, 'y', 0, True))
            bodies = [lambda: outcome(m['base'], (None, shared, 0, True), keep_text=True),
                      lambda: outcome(m['child'], (None, shared, 0, True), keep_text=True)]
            ex = sx.Execution(bodies, files, sched, False)
            results, steps, trace = ex.run(first)
            return results, steps, trace, ex.hung

        def steps_of(first, sched):
            key = (first, tuple(sorted(sched.items())))
            if key not in cache:
                cache[key] = execute(first, sched)[1]
            return cache[key]
        for first, sched in sx.schedules(2, steps_of, bound):
            results, steps, trace, hung = execute(first, sched)
            res['ctr']['cases'] += 1
            res['ctr']['states'] += 1
            res['ctr']['transitions'] += sum(steps)
            if trace:
                res['ctr']['nontrivial'] += 1
            if hung or results != exp:
                case = {'threads': ['base.parse(t)', 'derived.parse(t)'], 'text': text, 'first': first,
                        'schedule': [[list(k), v] for k, v in sorted(sched.items())]}
                r2, r3 = execute(first, sched), execute(first, sched)
                if (r2[0], r2[2]) != (r3[0], r3[2]):
                    add_viol(res, sigs, 'schedule NONDETERMINISTIC-REPLAY (harness)', case, 'identical replays', 'divergence')
                else:
                    add_viol(res, sigs, 'schedule base||derived-on-one-text-object outcome-depends-on-interleaving', case, exp, results)
                if hung:
                    res['_retire'] = True
                    return res
    finally:
        impl.uninstall(uid + '_c')
        impl.uninstall(uid)
    res['sample'] = {'threads': ['base.parse(t)', 'derived.parse(t)'], 'text': text, 'preemption_bound': bound}
    return res


def dispatch(job, st):
    if job[0] == 'pair-sched':
        return pair_schedule_job(job, st)
    if job[0] == 'pair':
        return pair_job(job, st)
    if job[0] == 'hist':
        return history_job(job, st)
    if job[0] == 'sched':
        return schedule_job(job, st)
    return reentrancy_job(job, st)


def all_jobs(tier):
    depth = 3 if tier == 'quick' else 4
    for op in history_ops():
        yield ('hist', op, depth)
    # longer histories over the operations that build, rebuild (same name) and use grammars
    for op in NAME_OPS:
        yield ('hist', op, 5 if tier == 'quick' else 6, 'names')
    for op in ARG_OPS:
        yield ('hist', op, 3 if tier == 'quick' else 4, 'args')
    for op in COMPILE_OPS:
        yield ('hist', op, 3 if tier == 'quick' else 4, 'compile')
    for op in PAIR_OPS:
        yield ('pair', op, 4 if tier == 'quick' else 5)
    for text in ('xx', 'xyx', 'x x', 'xx!'):
        yield ('pair-sched', text, 1)
    for ci in range(len(CALLS)):
        yield ('reent', ci, tier == 'thorough' and ci in (0, 2, 6))
    # threads: pairs of parse calls (different texts, offsets, entries; failing; raising), line granularity
    specs = [('call', i) for i in range(len(CALLS))] + [('raise',)]
    pairs = list(itertools.combinations(specs, 2)) + [(s, s) for s in specs[:4]]     # (s, s): both threads parse one text object
    for a, b in pairs:
        yield ('sched', (a, b), 1, False)
    # a Grammar() construction interleaved with a parse (the construction runs atomically at every step of the parse;
    # module initialisation code of the new module is itself interleavable)
    for i in ((0, 2) if tier == 'quick' else (0, 2, 4)):
        for k in range(8):
            yield ('sched', (('call', i), ('build-other',)), 1, False, (k, 8))
            yield ('sched', (('call', i), ('rebuild',)), 1, False, (k, 8))
    # two preemptions on a reduced pair (sliced over the workers)
    K = 32
    for k in range(K):
        yield ('sched', (('call', 3), ('call', 1)), 2, False, (k, K))
    if tier == 'thorough':
        for k in range(K):
            yield ('sched', (('call', 3), ('raise',)), 2, False, (k, K))
            yield ('sched', (('call', 6), ('call', 3)), 2, False, (k, K))
        for trio in ((('call', 0), ('call', 2), ('call', 1)), (('call', 3), ('raise',), ('call', 4)), (('call', 6), ('call', 5), ('rebuild',))):
            yield ('sched', trio, 1, False)
        # opcode granularity, one preemption
        for a, b in ((('call', 3), ('call', 1)), (('call', 0), ('call', 2)), (('call', 6), ('raise',))):
            yield ('sched', (a, b), 1, True)


def run(tier, seed):
    chk = Check('C18', tier, seed)
    chk.rule = ('one grammar (classes, ignore, template, inline-Python callback, error paths): (i) ALL histories of length <= 3 (thorough 4) '
                'over 18 operations (9 parse calls with different texts / offsets / entry rules / fullparse, a call abandoned by a raising '
                'callback, building another grammar, building a grammar that reuses the name, building a grammar that extends it and adds an ignore, 3 calls through that derived grammar), each '
                'replayed on a freshly built module, all histories of length <= 5 (6) over the 5 operations that build, rebuild under the same name and use grammars, all histories of length <= 3 (4) over 7 operations around a parameterised class entry requested with equal but distinguishable arguments (1, True, 1.0, [1], [True]) and over 9 operations around compilations (a grammar full of `| Fail()` choices, 4 rejected descriptions, the scenario description compiled again and called 31 times, 24 of them failing at different expressions: same outcomes incl. the failure report; interpreter settings unchanged after every operation), plus all histories of length <= 4 (5) over 6 calls through a base grammar without ignore and a derived grammar with one; (ii) ALL thread interleavings with <= 1 preemption of every pair of 8 call bodies (incl. '
                'failing and raising ones) and of a parse against a concurrent Grammar() construction, <= 2 preemptions on reduced pairs '
                '(thorough: 3 threads, opcode granularity), scheduling points = line events of the generated module under a baton '
                'scheduler; (iii) EVERY single deviation (nested parse discarded / embedded x 9 calls, nested parse of the outer text object, a Grammar() construction, a nested result wrapped around an object of the running parse, raise) at every inline-Python '
                'callback point of every call (thorough: pairs); oracle: every call has the outcome (value, spans, error position and '
                'message) of the same call made alone on a fresh module; non-trivial = executions with at least one preemption / '
                'operation after another / deviation')
    chk.assumptions = ['preemption is owned at line (thorough: bytecode) boundaries inside the generated module; C-level atomicity of dict/list/re is assumed (GIL)',
                       'a schedule is believed to violate only if it replays identically twice']
    chk.explore(dispatch, all_jobs(tier), init=init, chunk=1, job_deadline=1500, stop_on_violation=True)
    if chk.ctr.get('schedule_jobs_cut_by_wall_cap'):
        chk.caps.append('%d schedule job(s) cut by the 400 s wall cap' % chk.ctr['schedule_jobs_cut_by_wall_cap'])
    chk.notes['distinct_outcomes'] = len(chk.sets.get('outcomes', ()))
    chk.notes['distinct_module_state_hashes'] = len(chk.sets.get('state_hashes', ()))
    return chk.finish(floor=1000)


def replay(rep):
    st = init()
    case = rep['case']
    if 'history' in case:
        hist = [tuple(o) for o in case['history']]
        if case.get('scenario') != 'single grammar':
            print('re-run ./check C18 quick for histories of the base/derived pair scenario')
            return 1
        # exactly this history, on a freshly built module (compilation histories run under the default recursion limit)
        opset = 'compile' if any(o[0] in ('build-fails', 'fresh-build', 'build-rejected') for o in hist) else 'names'
        r = history_job(('hist', hist[0], len(hist), opset, hist[1:]), st)
        for v in r['viol']:
            print(v['sig'], '\n  expected:', v['expected'][:200], '\n  got:     ', v['got'][:200])
        print('history of %d operations replayed: %s' % (len(hist), 'VIOLATION' if r['viol_keys'] else 'ok'))
        return 1 if r['viol_keys'] else 0
    if 'schedule' in case:
        specs = tuple(tuple(int(x) if x.isdigit() else x for x in s) for s in case['threads'])
        sched = {tuple(k): v for k, v in case['schedule']}
        g = build()
        ex = sx.Execution([body_for(g, st['base'], s) for s in specs], {g.parse.__code__.co_filename}, sched, case.get('opcodes', False))
        results, steps, trace = ex.run(case['first'])
        exp = [expected_for(st['base'], s) for s in specs]
        print('results equal isolated outcomes:', results == exp)
        return 0 if results == exp else 1
    print('re-run ./check C18 quick for re-entrancy cases')
    return 1
