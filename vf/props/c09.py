"""C09 - reported error locations (DESIGN 3/C09)."""
import itertools

from .. import e1, impl
from ..core import Check, case_key
from . import c01, c02, c03

NL = ('str', '\n')
LEAVES = [('str', 'a'), ('str', 'ab'), NL, ('re', '[a\\n]+'), ('re', 'b?'), ('ref', 'Rab'), ('stri', 'a'), ('fail',)]


def by_product_jobs(tier):
    aux = dict(c01.AUXD)
    # (1) multi-line universe: <=1 (thorough <=2) operators over leaves with a line break
    for n in range(0, 2 if tier == 'quick' else 3):
        for e in c01.gen(n, LEAVES):
            if c01.wellformed(e, aux):
                rules = [('start', ('rule', None, e))] + c01.AUX
                mods = [(tuple(rules), (), 'start', None, (), False, 'named', None)]
                yield {'mods': mods, 'inputs': 'ab\\n:5', 'mode': 'outcome', 'positions': 'all',
                       'fullparse': (True,), 'tag': 'multiline', 'post': 'errpos'}
    # (1b) blanks that the grammar does not ignore: they are the first unmatchable character
    for n in range(0, 2):
        for e in c01.gen(n, [('str', 'a'), ('str', 'ab'), ('re', 'a+'), ('ref', 'Rab'), ('sep', ('re', '[ab]+'), ('str', ','), True, False, True, False)]):
            if c01.wellformed(e, aux):
                rules = [('start', ('rule', None, e))] + c01.AUX
                mods = [(tuple(rules), (), 'start', None, (), False, 'named', None)]
                yield {'mods': mods, 'inputs': 'ab\\s,:5', 'mode': 'outcome', 'positions': 'all',
                       'fullparse': (True,), 'tag': 'blanks', 'post': 'errpos'}
    # (2) the same in bytes mode, <=1 operator
    bl = [('str', 'a'), ('str', 'ab'), ('byte', 0x0a), ('re', 'a+'), ('ref', 'Rab')]
    for n in range(0, 2):
        for e in c01.gen(n, bl):
            if c01.wellformed(e, aux):
                rules = [('start', ('rule', None, c01.to_bytes(e)))] + [(k, (d[0], d[1], c01.to_bytes(d[2]))) for k, d in c01.AUX]
                mods = [(tuple(rules), (), 'start', None, (), True, 'named', None)]
                yield {'mods': mods, 'inputs': 'ab\\n:4', 'mode': 'outcome', 'positions': 'all',
                       'fullparse': (True,), 'tag': 'bytes', 'post': 'errpos'}
    # (3) Backtrack: lookbehind aside
    for e in c01.gen(1, [('str', 'a'), ('back', 1), NL]):
        if c01.wellformed(e, aux):
            rules = [('start', ('rule', None, e))] + c01.AUX
            mods = [(tuple(rules), (), 'start', None, (), False, 'named', None)]
            yield {'mods': mods, 'inputs': 'ab\\n:4', 'mode': 'outcome', 'positions': 'all',
                   'fullparse': (True,), 'tag': 'lookbehind', 'post': 'errpos', 'lookbehind': True}
    # (4) every error of the one-row operator tables and of the C03 cores
    for j in c02.table_jobs(c02.ROWTYPES, 1 if tier == 'quick' else 2, c02.OPERANDS):
        j['post'] = 'errpos'
        j['tag'] = 'optable'
        yield j
    seen = 0
    for j in c03.jobs('quick'):
        if not isinstance(j['inputs'], str) or j['inputs'].startswith('D'):
            continue
        seen += 1
        if tier == 'quick' and seen % 7:
            continue
        j['post'] = 'errpos'
        j['tag'] = 'lists'
        yield j


# --- the excerpt grid -----------------------------------------------------------------
GRID_GRAMMARS = {
    'E': 'start = [/[^?\\r]*/, "!"]',      # ParseError at the offending character
    'P': 'start = /[^?\\r]*/',            # PartialParseError at the offending character
    'BE': 'start = [b/[xy\\n]*/, b"!"]',
    'BP': 'start = b/[xy\\n]*/',
}
# (a byte-order mark at the start of the text is an ordinary character for sourcer)
PRE = ['', '\n', 'xx\n', 'x' * 100 + '\n', 'x\n\n', '\ufeff', '\ufeffxx\n']
# characters placed on the error line BEFORE the offending character: none of them is a line break for sourcer, each counts
# as one column and one excerpt character
INLINE = ['\x0c', '\u2028', '\x85', '\t', '\xa0', '\x00', '\x1b', '\u200b', '\x1c']
OFFENDING = ['?', '\r']          # '\r' is not a line break for sourcer: also as CR of a CRLF line end
SUF = ['', '\n', '\nyyy', '\n' + 'y' * 100]


def grid_init():
    mods = {}
    for k, d in GRID_GRAMMARS.items():
        b = impl.build(d)
        mods[k] = b[1] if b[0] == 'OK' else None
    return mods


def check_text(g, text, idx, is_bytes, off='?'):
    try:
        g.parse(text)
        return 'no-error'
    except Exception as e:
        name = type(e).__name__
        if name == 'ParseError':
            p = e.position
        elif name == 'PartialParseError':
            p = e.last_position
        else:
            return 'EXC:' + name
        msg = str(e)
    if p.index != idx:
        return 'index'
    lines = msg.split('\n')
    if is_bytes:
        if (p.line, p.column) != (1, idx + 1):
            return 'bytes-line-column'
        for ln in lines[1:]:
            if ln.strip() == '^':
                return 'bytes-caret'
        if len(lines) < 2 or not lines[1].startswith(("b'", 'b"')):
            return 'bytes-excerpt'
        return None
    line = 1 + text.count('\n', 0, idx)
    col = idx - (text.rfind('\n', 0, idx) + 1) + 1
    if (p.line, p.column) != (line, col):
        return 'line-column'
    if len(lines) < 3:
        return 'message-shape'
    ex, caret = lines[1], lines[2]
    if caret.strip() != '^' or set(caret[:-1]) - {' '}:
        return 'excerpt-spills-over-line-break'
    k = len(caret) - 1
    if k >= len(ex) or ex[k] != off:
        return 'caret-not-under-character'
    return None


def grid_job(L, mods):
    res = {'ctr': {'cases': 0, 'nontrivial': 0, 'states': 0, 'transitions': 0}, 'sets': {'regimes': set()},
           'viol': [], 'viol_keys': []}
    sigs = set()
    for k in GRID_GRAMMARS:
        if mods.get(k) is None:
            res['viol'].append({'sig': 'grid COMPILE ' + k, 'case': {'descs': [GRID_GRAMMARS[k]], 'what': 'Grammar()'},
                                'expected': 'module', 'got': 'exception'})
            return res
    for c in range(0, L):
        for pre in PRE:
            for suf in SUF:
              for off in OFFENDING:
                if off != '?' and (c not in (0, L - 1, L // 2) or suf == ''):
                    continue            # the CR variant: at the start, in the middle and as CR of a CRLF line end
                line = 'x' * c
                if off == '?' and c >= 2 and (c == L - 1 or c == L // 2):
                    # (one special character in the middle of what precedes the error on its line)
                    sp = INLINE[(L + c) % len(INLINE)]
                    line = line[:c // 2] + sp + line[c // 2 + 1:]
                text = pre + line + off + 'y' * (L - c - 1) + suf
                idx = len(pre) + c
                for gk in ('E', 'P', 'BE', 'BP'):
                    is_b = gk.startswith('B')
                    if is_b and (pre not in ('', 'xx\n') or suf not in ('', '\nyyy') or off != '?' or line != 'x' * c):
                        continue
                    t = text.encode() if is_b else text
                    why = check_text(mods[gk], t, idx, is_b, off)
                    res['ctr']['cases'] += 1
                    res['ctr']['states'] += 1
                    res['ctr']['transitions'] += 1
                    # regime of the excerpt: short line / chopped at end / at start / both
                    if not is_b:
                        end_pos = L - c
                        regime = ('short' if L < 96 else 'end' if c + 1 < 60 else 'start' if end_pos < 42 else 'both')
                        res['sets']['regimes'].add(regime)
                        if L >= 96:
                            res['ctr']['nontrivial'] += 1
                    if why:
                        case = {'descs': [GRID_GRAMMARS[gk]], 'entry': [None, None],
                                'text': {'bytes': text} if is_b else text, 'pos': 0, 'fullparse': True}
                        key = case_key(case)
                        sig = 'grid-%s %s' % (gk, why)
                        res['viol_keys'].append((key, sig))
                        if sig not in sigs:
                            sigs.add(sig)
                            res['viol'].append({'sig': sig, 'key': key, 'case': case,
                                                'expected': 'index %d; caret under "?"' % idx, 'got': why,
                                                'snippet': 'from sourcer import Grammar\ng = Grammar(%r)\ng.parse(%r)' % (GRID_GRAMMARS[gk], t)})
    res['sample'] = {'grid_line_length': L, 'prefixes': PRE, 'suffixes': [s[:8] for s in SUF],
                     'text_shape': "pre + 'x'*c + '?' + 'y'*(L-c-1) + suf for every c"}
    return res


def run(tier, seed):
    chk = Check('C09', tier, seed)
    chk.rule = ('(a) every ParseError / PartialParseError raised in multi-line, bytes, lookbehind, operator-table and '
                'list universes (every start offset) is checked for range, token-level reachability, line/column and '
                'None-at-end-of-input; (b) excerpt grid: error line length L=0..%d x every error column x 5 prefixes x '
                '4 suffixes x {ParseError, PartialParseError} plus bytes input: caret under the offending character, '
                'excerpt on one line; non-trivial = lines long enough (>=96) for the excerpt to be abbreviated, and '
                'by-product cases needing a restore') % (230 if tier == 'quick' else 460)
    chk.assumptions = ['reading of "first character no token can match" = token-level reachability (DESIGN 2.2)']
    chk.explore(e1.run_job, by_product_jobs(tier), chunk=8)
    Ls = list(range(0, 231 if tier == 'quick' else 461))
    # rotate the order with the seed (coverage is the full grid either way)
    Ls = Ls[seed % len(Ls):] + Ls[:seed % len(Ls)]
    Ls.sort(key=lambda x: -x)
    chk.explore(grid_job, Ls, init=grid_init, chunk=1)
    chk.notes['excerpt_regimes_seen'] = sorted(chk.sets.get('regimes', []))
    return chk.finish(floor=1000)


def replay(rep):
    case = rep['case']
    if rep.get('sig', '').startswith('grid'):
        d = case['descs'][0]
        b = impl.build(d)
        text = case['text']
        is_b = isinstance(text, dict)
        if is_b:
            text = text['bytes'].encode()
        idx = text.index(b'?' if is_b else '?')
        why = check_text(b[1], text, idx, is_b)
        print('grid case:', why or 'ok')
        return 1 if why else 0
    return e1.replay_case(rep, 'outcome')
