"""C08 - parse has exactly three outcomes (DESIGN 3/C08)."""
from .. import e1, impl
from ..core import Check
from . import c01

A, B = ('str', 'a'), ('str', 'b')
AUX = c01.AUX + [
    ('K', ('class', None, [('p', False, A), ('q', False, ('opt', B))])),
    ('Z', ('class', None, [('p', False, ('opt', A))])),
    ('E', ('rule', None, ('str', ''))),
    ('E1', ('rule', None, A)),
    ('W', ('class', None, [('xs', False, ('star', ('ref', 'K'))), ('t', False, ('opt', ('ref', 'Z')))])),
    ('Q', ('class', ['n', 'tag'], [('xs', False, ('rep', A, 'n', 'n')), ('v', False, ('py', '(n, tag)'))])),
]
# parameterised class as entry point: Q.parse(n, tag)(text, pos, fullparse)
Q_ENTRIES = [('Q', None, (0, 'x')), ('Q', None, (2, None))]
AUXD = dict(AUX)
# further leaves: class references (incl. one whose instances span many characters), a predicate on a
# literal, a regex that matches the empty string but can still fail, an end anchor
MORE_LEAVES = [('ref', 'K'), ('ref', 'Z'), ('ref', 'W'),
               ('where', ('re', '[ab]'), ('py', "lambda x: x == 'a'")),
               ('re', '(?!b)a*'), ('re', '$'),
               ('re', 'a'),       # (the same pattern text as the case-insensitive literal "a"i)
               # a separated list whose separator can half-match, with and without trailer; a counted repetition of an
               # element that may match nothing
               ('sep', ('str', 'a'), ('right', ('opt', ('str', 'b')), ('str', 'A')), True, True, True, False),
               ('sep', ('str', 'a'), ('right', ('opt', ('str', 'b')), ('str', 'A')), True, False, True, False),
               ('rep', ('opt', ('str', 'a')), 2, 3),
               # operator tables with a non-associative row and no prefix / postfix rows (a chained operator ends the
               # expression before it): operand a bare literal, a rule
               ('optable', ('str', 'a'), (('infix', (('str', 'b'),)),)),
               ('optable', ('ref', 'E1'), (('infix', (('str', 'b'),)), ('left', (('str', 'A'),))))]
EXTRA_STARTS = [
    ('rule', None, ('ref', 'K')), ('rule', None, ('ref', 'Z')), ('rule', None, ('ref', 'W')),
    ('rule', None, ('star', ('ref', 'K'))), ('rule', None, ('seq', ('expect', ('ref', 'K')), ('ref', 'K'))),
    ('rule', None, ('opt', ('ref', 'Z'))), ('rule', None, ('choice', ('seq', ('ref', 'K'), A), ('ref', 'K'))),
    ('class', None, [('p', False, A), ('q', False, ('opt', B))]),
    ('class', None, [('p', False, ('opt', A))]),
    ('class', None, [('k', False, ('opt', ('ref', 'K'))), (None, True, ('opt', A))]),
]


def shift(job, text, pos, full, r, out):
    """parsing text from pos=k equals parsing text[k:] from 0, positions shifted by k"""
    if pos == 0 or not job.get('shift'):
        return None
    parse = job['_parse']
    o2 = impl.run(parse, text[pos:], 0, full, spans=True, time_limit=1.0, patient=True)
    if o2['kind'] != out['kind']:
        return 'shift-kind'
    if out['kind'] in ('RET', 'PARTIAL'):
        if shift_spans(o2['value'], pos) != drop_linecol(out['value']):
            return 'shift-value'
    if out['kind'] in ('PARTIAL', 'ERROR') and o2['index'] + pos != out['index']:
        return 'shift-index'
    return None


def shift_spans(v, k):
    if isinstance(v, tuple):
        if v and v[0] == 'SPAN':
            return ('SPAN', v[1] + k, v[2] + k)
        return tuple(shift_spans(x, k) for x in v)
    return v


def drop_linecol(v):
    if isinstance(v, tuple):
        if v and v[0] == 'SPAN':
            return ('SPAN', v[1], v[2])
        return tuple(drop_linecol(x) for x in v)
    return v


e1.POST['c08_shift'] = shift


def jobs(tier):
    nops = 1 if tier == 'quick' else 2
    leaves = c01.LEAVES if tier == 'quick' else c01.LEAVES
    inp = 'abA:4' if tier == 'quick' else 'abA:4'
    starts = []
    for n in range(0, nops + 1):
        srcleaves = leaves if n < 2 else c01.SMALL_LEAVES + [('ref', 'K'), ('ref', 'Z')]
        for e in c01.gen(n, srcleaves + (MORE_LEAVES if n < 2 else [])):
            if c01.wellformed(e, AUXD):
                starts.append(('rule', None, e))
    starts += EXTRA_STARTS
    for d in starts:
        for sname in ('start', 'Start'):
            if sname == 'Start' and d[0] != 'class':
                continue
            rules = [(sname, d)] + AUX
            entries = [(None, None)] + [(n, None) for n, d_ in rules if not d_[1]] + Q_ENTRIES
            noshift = (c01.hasback(d[2]) or "('re', '$')" in repr(d[2])) if d[0] == 'rule' else False
            mods = [(tuple(rules), (), sname, None, (), False, 'named', None)]
            yield {'mods': mods, 'inputs': inp, 'mode': 'spans', 'entries': entries,
                   'positions': 'all', 'fullparse': (True, False), 'tag': d[0] + '-start',
                   'post': 'c08_shift', 'shift': not noshift}


def run(tier, seed):
    chk = Check('C08', tier, seed)
    chk.rule = ('every expression with <=1 (thorough: <=2) operators plus class / zero-width start rules, '
                'x every rule and class of the grammar as entry point (module parse, R.parse, C.parse) x all '
                'inputs of length 0..4 x every start offset x both fullparse values; oracle: three-outcome rule '
                'derived from the model (value, end) incl. spans, and shift invariance on the implementation; '
                'non-trivial = the model run needed a restore')
    chk.assumptions = ['reference interpreter vf/model.py']
    chk.explore(e1.run_job, jobs(tier), chunk=4)
    kinds = chk.sets.get('outcome_kinds', set())
    return chk.finish(floor=1000)


def replay(case):
    return e1.replay_case(case, 'spans')
