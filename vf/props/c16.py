"""C16 - transform rewrites bottom-up, once per node, preserving metadata (DESIGN 3/C16)."""
import itertools

from .. import impl, ox, e1
from ..core import Check, case_key

KINDS = ['K0', 'K1', 'K2', 'list', 'tuple', 'dict', 'Infix']
NSLICES = 64

TERM = r'''
start = T*
T = K2 | K1 | K0 | L | Op
Op = "(" >> OpE << ")"
OpE = K0 between {
    prefix: "-"
    left: "+"
}
class K0 { pass "0" }
class K1 { a: "1" >> T? }
class K2 { a: "2" >> T; b: T }
L = "[" >> T* << "]"
'''


OPSENTS = ['(0+0)', '(-0)', '1(0+0)', '2(0+-0)1', '[(0+0+0)]', '2(0)(-0+0)', '1(-0)0', '2[(0+0)]1(0)']


def init():
    g = ox.host()
    b = impl.build(TERM)
    if b[0] != 'OK':
        raise RuntimeError('term grammar: %r' % (b,))
    return {'g': g, 't': b[1]}


def callbacks(g, log):
    """the callback menu; each logs a snapshot of every parsed-object argument it receives"""
    PO = g.ParsedObject

    def rec(tag, n):
        if isinstance(n, PO):
            log.append((tag, ox.snapshot(g, n)))

    def ident(n):
        rec('id', n)
        return n

    def k1_to_k2(n):
        rec('k1k2', n)
        return g.K2(n.a, None) if isinstance(n, g.K1) else n

    def k2_to_scalar(n):
        rec('k2s', n)
        return 7 if isinstance(n, g.K2) else n

    def k1_to_list(n):
        rec('k1l', n)
        return [n.a] if isinstance(n, g.K1) else n

    def wrap_k0(n):
        rec('wrap', n)
        return g.K1(n) if isinstance(n, g.K0) else n

    def fresh_copy(n):
        rec('copy', n)
        return type(n)(**n._asdict()) if isinstance(n, PO) else n

    def own_meta(n):
        rec('own', n)
        if isinstance(n, g.K1):
            r = g.K1(n.a)
            r._metadata.position_info = ('own', 1)
            return r
        return n
    def k0_to_none(n):
        rec('none', n)
        return None if isinstance(n, g.K0) else n

    def unwrap(n):
        # the replacement is a sub-tree of the INPUT (it may carry no metadata of its own)
        rec('unwrap', n)
        if isinstance(n, g.K1) and isinstance(n.a, PO):
            return n.a
        if isinstance(n, g.K2) and isinstance(n.b, PO):
            return n.b
        return n

    def rewrite_plain(n):
        # later callbacks also see what earlier ones made of a node when that is not a parsed object
        rec('plain', n)
        if isinstance(n, list):
            return tuple(n)
        if n == 7 and not isinstance(n, PO):
            return 8
        return n
    return [ident, k1_to_k2, k2_to_scalar, k1_to_list, wrap_k0, fresh_copy, own_meta, k0_to_none, unwrap, rewrite_plain]


def ref_transform(g, x, cbs):
    """Reference: bottom-up, every occurrence once, parents rebuilt from transformed children first."""
    PO = g.ParsedObject
    if isinstance(x, list):
        return [ref_transform(g, y, cbs) for y in x]
    if not isinstance(x, PO):
        return x
    kw = {f: ref_transform(g, getattr(x, f), cbs) for f in x._fields}
    node = x
    if any(kw[f] is not getattr(x, f) for f in x._fields):
        node = type(x)(**kw)
        node._metadata.update(x._metadata)
    for f in cbs:
        prev = node
        node = f(prev)
        if node is not prev and isinstance(prev, PO) and isinstance(node, PO) and not len(node._metadata):
            # the replacement stands for prev: an equal object carrying prev's metadata (a copy: the
            # replacement may belong to the input tree, which is never modified)
            node = type(node)(**{f: getattr(node, f) for f in node._fields})
            node._metadata.update(prev._metadata)
    return node


def check_tree(g, make, res, sigs, desc, maxlen):
    """`make()` builds the tree afresh for every callback sequence (a modified input must not leak into the next run)"""
    ncb = len(callbacks(g, []))
    for k in range(1, maxlen + 1):
        for combo in itertools.product(range(ncb), repeat=k):
            root = make()
            before = ox.snapshot(g, root)
            l1, l2 = [], []
            c1, c2 = callbacks(g, l1), callbacks(g, l2)
            res['ctr']['cases'] += 1
            why = None
            try:
                got = g.transform(root, *[c1[i] for i in combo])
            except Exception as x:
                why = 'EXC:%s' % type(x).__name__
                got = None
            if why is None and ox.snapshot(g, root) != before:
                why = 'input-modified'
            exp = ref_transform(g, make(), [c2[i] for i in combo])
            res['ctr']['transitions'] += len(l2)
            se = ox.snapshot(g, exp)
            if se != before:
                res['ctr']['nontrivial'] += 1
            if why is None:
                sg = ox.snapshot(g, got)
                if sg != se:
                    if ox.snapshot(g, got, meta=False) == ox.snapshot(g, exp, meta=False):
                        why = 'metadata'
                    else:
                        why = 'result'
                elif l1 != l2:
                    why = 'call-log'
                elif ox.snapshot(g, root) != before:
                    why = 'input-modified'
                elif all(c1[i].__name__ in ('ident', 'fresh_copy') for i in combo) and not (got == root and root == got):
                    # "with an identity callback the result equals the input" - by the objects' own ==
                    why = 'identity-result-not-equal-to-input'
            if why:
                names = [c1[i].__name__ for i in combo]
                sig = 'transform %s' % why
                case = {'tree': desc, 'callbacks': names}
                key = case_key(case)
                res['viol_keys'].append((key, sig))
                if sig not in sigs:
                    sigs.add(sig)
                    res['viol'].append({'sig': sig, 'key': key, 'case': case, 'expected': repr(se)[:300],
                                        'got': repr(ox.snapshot(g, got))[:300] if got is not None else why})


def graph_job(job, st):
    tier, k = job
    g = st['g']
    res = {'ctr': {'cases': 0, 'nontrivial': 0, 'states': 0, 'transitions': 0}, 'sets': {}, 'viol': [], 'viol_keys': []}
    sigs = set()
    key = 'u_' + tier
    if key not in st:
        st[key] = list(ox.scripts(4 if tier == 'quick' else 5, KINDS if tier == 'quick' else ['K0', 'K1', 'K2', 'list', 'dict'],
                                  leaves=[('none',), ('int', 1), ('dstr', 'xy')]))
        # ... and small graphs whose leaves are NaN objects (x != x for the leaf; the tree still equals itself)
        st[key] += list(ox.scripts(3, ['K1', 'K2', 'list'], leaves=[('nan',)]))
    scripts = st[key]
    for idx in range(k, len(scripts), NSLICES):
        script = scripts[idx]
        def make(script=script, idx=idx):
            objs = ox.construct(script, g)
            for i, o in enumerate(objs):
                # every third object carries no metadata (like Infix/Prefix/Postfix nodes of operator tables)
                if ox.is_po(g, o) and (i + idx) % 3:
                    o._metadata.position_info = ('fake', i)
            return objs[-1]
        res['ctr']['states'] += 1
        check_tree(g, make, res, sigs, {'script': [list(map(str, s)) for s in script]}, 2 if tier == 'thorough' or idx % 4 == 0 else 1)
    res['sample'] = {'script': scripts[k] if k < len(scripts) else None, 'callback_menu': [f.__name__ for f in callbacks(g, [])]}
    return res


def parsed_job(job, st):
    tier, k = job
    g = st['t']
    res = {'ctr': {'cases': 0, 'nontrivial': 0, 'states': 0, 'transitions': 0}, 'sets': {}, 'viol': [], 'viol_keys': []}
    sigs = set()
    sents = e1.strings('012[]', 5 if tier == 'quick' else 6, lo=1) + OPSENTS
    for idx in range(k, len(sents), NSLICES):
        s = sents[idx]
        try:
            tree = g.parse(s)
        except Exception as x:
            if type(x).__name__ in ('ParseError', 'PartialParseError'):
                continue
            raise
        res['ctr']['states'] += 1
        check_tree(g, lambda s=s: g.parse(s), res, sigs, {'term': s}, 2)
    res['sample'] = {'term_language_sentence': sents[k]}
    return res


def dispatch(job, st):
    if job[0] == 'graphs':
        return graph_job(job[1:], st)
    return parsed_job(job[1:], st)


def run(tier, seed):
    chk = Check('C16', tier, seed)
    chk.rule = ('hand-built object DAGs with <=4 (thorough <=5) nodes (also <=3 nodes over NaN leaves; two thirds of the objects carry distinct metadata, the rest none, like operator-table nodes) and all parsed trees of '
                'a term language (sentences <=5/6 symbols, real position metadata) x all callback sequences of length 1..2 over a '
                'menu of 10 callbacks (identity, K0->None, unwrap to an input sub-tree, rewrite of non-object results, K1->K2 without metadata, K2->scalar, K1->list, wrap, fresh equal copy, replacement '
                'with own metadata); compared with a bottom-up reference: result incl. metadata of every node, call log '
                '(argument snapshots in order), input unchanged, identity callbacks: result == input by the own == of the objects; non-trivial = the transformation changes the tree')
    chk.assumptions = ['reference bottom-up rewrite in vf/props/c16.py; callbacks never mutate their argument and never raise']
    jobs = [('graphs', tier, k) for k in range(NSLICES)] + [('parsed', tier, k) for k in range(NSLICES)]
    chk.explore(dispatch, jobs, init=init, chunk=1, job_deadline=900)
    return chk.finish(floor=1000)


def replay(rep):
    st = init()
    case = rep['case']
    res = {'ctr': {'cases': 0, 'nontrivial': 0, 'states': 0, 'transitions': 0}, 'viol': [], 'viol_keys': []}
    if 'term' in case['tree']:
        g = st['t']
        tree = g.parse(case['tree']['term'])
    else:
        g = st['g']
        import ast
        script = [tuple(ast.literal_eval(x) if x[:1] in '(0123456789' else x for x in s) for s in case['tree']['script']]
        objs = ox.construct(script, g)
        for i, o in enumerate(objs):
            if ox.is_po(g, o):
                o._metadata.position_info = ('fake', i)
        tree = objs[-1]
    check_tree(g, (lambda: tree), res, set(), case["tree"], 2)
    print(res['viol'][:1] or 'ok')
    return 1 if res['viol_keys'] else 0
