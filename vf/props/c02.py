"""C02 - operator tables (DESIGN 3/C02, appendix A)."""
import itertools

from .. import e1
from ..core import Check

KINDS = ['left', 'right', 'infix', 'prefix', 'postfix']
OPSETS = [['+'], ['-'], ['++'], ['+', '-'], ['+', '++'], ['++', '+']]
MIXFIX = ('mixfix', (('left', ('right', ('str', '('), ('ref', 'E')), ('str', ')')),))
ROWTYPES = [(k, tuple(('str', o) for o in ops)) for k in KINDS for ops in OPSETS] + [MIXFIX]


def flatten(v, out):
    """in-order reading of a canonical Infix/Prefix/Postfix tree"""
    if isinstance(v, tuple) and v and v[0] == 'O':
        for _, x in v[2]:
            flatten(x, out)
    elif isinstance(v, str):
        out.append(v)
    elif isinstance(v, tuple) and v and v[0] == 'L':
        for x in v[1:]:
            flatten(x, out)
    return out


def inorder(job, text, pos, full, r, out):
    if out['kind'] not in ('RET', 'PARTIAL'):
        return None
    end = len(text) if out['kind'] == 'RET' else out['index']
    got = ''.join(flatten(out['value'], []))
    if got != text[pos:end]:
        return 'in-order-reading'
    return None


e1.POST['c02_inorder'] = inorder


def table_jobs(rowtypes, nrows, operands, tagp=''):
    for n in range(1, nrows + 1):
        for table in itertools.product(rowtypes, repeat=n):
            hasmix = any(k == 'mixfix' for k, _ in table)
            inp = '1+-():5' if hasmix else '1+-:6'
            for oname, operand in operands:
                rows = tuple((k, tuple(ops)) for k, ops in table)
                rules = [('E', ('rule', None, ('optable', operand, rows))),
                         ('N', ('rule', None, ('str', '1'))),
                         ('start', ('rule', None, ('ref', 'E')))]
                mods = [(tuple(rules), (), 'start', None, (), False, 'named', None)]
                yield {'mods': mods, 'inputs': inp, 'mode': 'simple',
                       'tag': '%s%s-operand' % (tagp, oname),
                       'post': None if hasmix else 'c02_inorder'}


def extended_jobs():
    """extended row alphabet at <=2 rows: regex and compound operators, class-valued
    postfix operator, a mixfix row that is a class, a table nested in a table."""
    ext = [
        ('left', (('re', '[+-]'),)),
        ('right', (('seq', ('str', '+'), ('str', '-')),)),
        ('postfix', (('ref', 'Args'),)),
        ('prefix', (('re', '-+'),)),
        ('infix', (('choice', ('str', '+-'), ('str', '+')),)),
        ('mixfix', (('ref', 'Paren'),)),
        ('left', (('str', '+'),)),
        ('postfix', (('str', '-'),)),
        # operators written as <regex> where <predicate>: an earlier operator of the row matches its regex but is
        # rejected by its predicate, a later one accepts the same text
        ('left', (('where', ('re', '[+-]'), ('py', "lambda v: v == '-'")), ('where', ('re', '[+-]'), ('py', "lambda v: v == '+'")))),
        ('prefix', (('where', ('re', '[+-]+'), ('py', "lambda v: v == '--'")), ('where', ('re', '[+-]'), ('py', "lambda v: v == '-'")))),
    ]
    extra = [('Args', ('class', None, [(None, True, ('str', '(')), ('args', False, ('sep', ('ref', 'E'), ('str', '+'), True, False, True, False)), (None, True, ('str', ')'))])),
             ('Paren', ('class', None, [(None, True, ('str', '(')), ('inner', False, ('ref', 'E')), (None, True, ('str', ')'))]))]
    for n in (1, 2):
        for table in itertools.product(ext, repeat=n):
            rows = tuple(table)
            for oname, operand in (('rule', ('ref', 'N')), ('literal', ('str', '1'))):
                rules = [('E', ('rule', None, ('optable', operand, rows))),
                         ('N', ('rule', None, ('str', '1'))),
                         ('start', ('rule', None, ('ref', 'E')))] + extra
                mods = [(tuple(rules), (), 'start', None, (), False, 'named', None)]
                yield {'mods': mods, 'inputs': '1+-():5', 'mode': 'simple', 'tag': 'ext-%s-operand' % oname}
    # a table nested as the operand of another table
    inner_rows = [('left', (('str', '+'),)), ('prefix', (('str', '-'),)), ('postfix', (('str', '+'),))]
    outer_rows = [('left', (('str', '-'),)), ('right', (('str', '-'),)), ('infix', (('str', '-'),)),
                  ('postfix', (('str', '-'),)), ('prefix', (('str', '+'),))]
    for ir in inner_rows:
        for orow in outer_rows:
            inner = ('optable', ('ref', 'N'), (ir,))
            for operand in (('ref', 'I'), inner):
                rules = [('E', ('rule', None, ('optable', operand, (orow,)))),
                         ('I', ('rule', None, inner)),
                         ('N', ('rule', None, ('str', '1'))),
                         ('start', ('rule', None, ('ref', 'E')))]
                mods = [(tuple(rules), (), 'start', None, (), False, 'named', None)]
                yield {'mods': mods, 'inputs': '1+-:6', 'mode': 'simple', 'tag': 'nested'}


OPERANDS = (('rule', ('ref', 'N')), ('literal', ('str', '1')))


def jobs(tier):
    yield from table_jobs(ROWTYPES, 2, OPERANDS)
    if tier == 'thorough':
        yield from extended_jobs()
        # three rows
        for table in itertools.product(ROWTYPES, repeat=3):
            hasmix = any(k == 'mixfix' for k, _ in table)
            inp = '1+-():5' if hasmix else '1+-:6'
            for oname, operand in OPERANDS:
                rows = tuple((k, tuple(ops)) for k, ops in table)
                rules = [('E', ('rule', None, ('optable', operand, rows))),
                         ('N', ('rule', None, ('str', '1'))),
                         ('start', ('rule', None, ('ref', 'E')))]
                mods = [(tuple(rules), (), 'start', None, (), False, 'named', None)]
                yield {'mods': mods, 'inputs': inp, 'mode': 'simple', 'tag': '3rows-%s-operand' % oname,
                       'post': None if hasmix else 'c02_inorder'}
    else:
        # quick: the one-row slice of the extended alphabet and the nested tables
        for j in extended_jobs():
            rows = j['mods'][0][0][0][1][2][2]
            if j['tag'] == 'nested' or len(rows) == 1:
                yield j


def run(tier, seed):
    chk = Check('C02', tier, seed)
    chk.rule = ('all operator tables of <=2 (thorough: 3) rows over 31 row types (5 kinds x 6 operator lists '
                'sharing spellings / prefixes of one another, plus a mixfix row), operand as rule reference and '
                'as literal, x all token strings over {1,+,-} up to length 6 (or {1,+,-,(,)} up to 5); oracle: '
                'flat PEG scan + Pratt tree builder (DESIGN appendix A), plus in-order reading == consumed text; '
                'non-trivial = the expression ends before a syntactically plausible continuation '
                '(dangling operator, non-associative stop, restore needed)')
    chk.assumptions = ['reference interpreter vf/model.py (operator-table clause cross-checked against the declarative tree filter in vf/selftest)']
    chk.explore(e1.run_job, jobs(tier), chunk=8)
    return chk.finish(floor=1000)


def replay(case):
    return e1.replay_case(case, 'simple')
