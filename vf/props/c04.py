"""C04 - ignored patterns are skipped exactly at token boundaries (DESIGN 3/C04)."""
import re

from .. import e1, impl
from ..core import Check

B = ('str', 'b')
SP = ('re', ' +')
CM = ('re', '#[^\\n]*')
NLSP = ('re', '[ \\n]+')
LITS = [('str', 'a'), ('stri', 'a'), ('re', 'a+'), ('rei', 'a'), ('re', 'b?')]
HH = ('seq', ('str', '#'), ('str', '#'))       # an ignore pattern made of two literals (can fail half-way)


def shapes(l):
    """start-rule bodies around one literal l"""
    yield 'lit', l, []
    yield 'seq', ('seq', l, B), []
    yield 'opt', ('seq', ('opt', l), B), []
    yield 'star', ('star', l), []
    yield 'choice', ('choice', ('seq', l, l), ('seq', l, B)), []
    yield 'expect', ('seq', ('expect', l), l, B), []
    yield 'expectnot', ('seq', ('expectnot', l), B), []
    # lookahead over several tokens: ignorable text between them is skipped inside the lookahead too
    yield 'expect-seq', ('seq', ('expect', ('seq', l, B)), l, B), []
    yield 'expectnot-seq', ('seq', ('expectnot', ('seq', l, B)), l), []
    yield 'sep', ('sep', l, ('str', ','), True, False, True, False), []
    yield 'septrail', ('sep', l, B, False, True, True, False), []
    yield 'optable', ('optable', l, (('left', (B,)),)), []
    yield 'prefixop', ('optable', B, (('prefix', (l,)),)), []
    yield 'tmpl', ('call', 'T', [l], []), [('T', ('rule', ['p'], ('seq', ('ref', 'p'), ('opt', ('ref', 'p')))))]
    yield 'rule2', ('star', ('ref', 'X')), [('X', ('rule', None, ('choice', l, B)))]
    yield 'cls2', ('star', ('ref', 'K')), [('K', ('class', None, [('k', False, l), ('j', False, ('opt', B))]))]
    yield 'skipexpr', ('seq', l, ('skip', B), l), []
    yield 'longest', ('longest', ('seq', l, B), l), []
    # literals only, nested beyond the depth at which the generator moves the inner part into a helper function
    e = ('seq', l, ('opt', B))
    for _ in range(20):
        e = ('seq', e)
    yield 'deep', ('right', ('str', ''), e), []


IGNORES = [
    ('sp/named', [SP], 'named'),
    ('sp/named_ignored', [SP], 'named_ignored'),
    ('sp/anon', [SP], 'anon'),
    ('sp/anon_ignored', [SP], 'anon_ignored'),
    ('sp/anon_after', [SP], 'anon_after'),
    ('two/named', [SP, CM], 'named'),
    ('two/anon', [CM, SP], 'anon'),
    ('two/anon_after', [SP, CM], 'anon_after'),
    ('nl/named', [NLSP], 'named'),
    ('multilast/named', [SP, HH], 'named'),
    ('multifirst/named', [HH, SP], 'named'),
    ('multilast/anon', [SP, HH], 'anon'),
    ('multionly/named', [HH], 'named'),
]


def stretch(job, text, pos, full, r, out):
    """lengthening a run of ignorable text that is being skipped changes no parsed value"""
    if not job.get('stretch') or out['kind'] != 'RET' or pos != 0 or ' ' not in text:
        return None
    parse = job['_parse']
    for k in (2, 3):
        t2 = re.sub(' +', lambda m: m.group(0) * k, text)
        o2 = impl.run(parse, t2, 0, full, spans=False, time_limit=1.0, patient=True)
        if o2['kind'] != 'RET':
            return 'stretch-%dx-outcome-%s' % (k, o2['kind'])
        if o2['value'] != e1.strip_spans(out['value']):
            return 'stretch-%dx-value' % k
    return None


e1.POST['c04_stretch'] = stretch


def jobs(tier):
    n1 = 5 if tier == 'quick' else 6
    for l in LITS:
        for sn, body, extra in shapes(l):
            for kind in ('rule', 'class', 'class-pass-first'):
                if kind == 'rule':
                    sd = ('rule', None, body)
                    sname = 'start'
                elif kind == 'class-pass-first':
                    if sn not in ('lit', 'seq', 'opt', 'choice'):
                        continue
                    # the first member of the start class is an unnamed `pass` member
                    sd = ('class', None, [(None, True, body), ('q', False, ('opt', B))])
                    sname = 'Start'
                else:
                    sd = ('class', None, [('p', False, body), ('q', False, ('opt', B))])
                    sname = 'Start'
                rules = [(sname, sd)] + extra
                entries = [(None, None)] + [(n, None) for n, d in rules if not d[1]]
                for iname, pats, style in IGNORES:
                    if tier == 'quick' and l != LITS[0] and style not in ('named', 'anon'):
                        continue
                    mods = [(tuple(rules), tuple(pats), sname, None, (), False, style, None)]
                    two = len(pats) > 1 or pats[0] == HH
                    nl = pats[0] == NLSP
                    inp = ('a\\s\\n:4' if nl else 'ab\\s#:%d' % n1 if two else 'ab\\s,:%d' % n1 if sn == 'sep' else 'ab\\s:%d' % n1)
                    yield {'mods': mods, 'inputs': inp, 'mode': 'spans', 'entries': entries,
                           'tag': '%s-start/%s' % (kind, iname.split('/')[1]),
                           'post': 'c04_stretch', 'stretch': True}
    # bytes mode: byte literal kind
    bl = ('byte', 0x61)
    bb = ('str', b'b')
    for sn, body in (('lit', bl), ('seq', ('seq', bl, bb)), ('star', ('star', bl)),
                     ('opt', ('seq', ('opt', bl), bb)), ('choice', ('choice', ('seq', bl, bl), ('seq', bl, bb))),
                     ('expect', ('seq', ('expect', bl), bl))):
        for style in ('named', 'anon'):
            rules = [('start', ('rule', None, body))]
            mods = [(tuple(rules), (('re', ' +'),), 'start', None, (), True, style, None)]
            yield {'mods': mods, 'inputs': 'ab\\s:5', 'mode': 'spans', 'entries': [(None, None), ('start', None)],
                   'tag': 'bytes/' + style}


def run(tier, seed):
    chk = Check('C04', tier, seed)
    chk.rule = ('4 literal kinds (+ byte literals in bytes mode) x 19 enclosing start-rule shapes (one nests the literals 20 blocks deep) x {plain rule, class, class whose first member is a pass member} start x 9 ignore '
                'declarations (one/two patterns, named/anonymous, ignore/ignored, before/after the rules, pattern matching line breaks) '
                'x entry points {parse, every parameterless rule} x all inputs over {a,b,space,#|,} up to length 5/6; oracle: model '
                'with the skip rule (after every successful literal, before the start rule body only) incl. spans, plus the metamorphic '
                'stretch of every skipped run to 2x and 3x; non-trivial = the model run needed a restore')
    chk.assumptions = ['reference interpreter; ignore patterns with disjoint first characters (declaration order cannot change the stopping point)']
    chk.explore(e1.run_job, jobs(tier), chunk=4)
    return chk.finish(floor=1000)


def replay(case):
    return e1.replay_case(case, 'spans')
