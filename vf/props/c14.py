"""C14 - parsed objects are values (DESIGN 3/C14)."""
import copy
import itertools
import pickle
import sys

from .. import impl, ox
from ..core import Check, case_key

KINDS = ['K0', 'K1', 'K2', 'M2', 'list', 'tuple', 'dict', 'Infix', 'Prefix']
KINDS_T = ['K1', 'K2', 'list', 'dict']
ROOTK = ('K0', 'K1', 'K2', 'M2', 'Infix', 'Prefix', 'Postfix')
NSLICES = 64
HOSTNAME = 'vf_c14_host'


def universe(tier, which):
    if which == 'single':
        n = 4
        return (list(ox.scripts(n, KINDS if tier == 'quick' else KINDS + ['Postfix'], root_kinds=ROOTK))
                # small graphs over a NaN leaf (x != x): a tree still equals itself and its copies that share the leaf
                + list(ox.scripts(3, ['K1', 'K2', 'list', 'Infix'], leaves=[('nan',)], root_kinds=ROOTK)))
    # pairs
    if tier == 'quick':
        return list(ox.scripts(3, KINDS, root_kinds=ROOTK))
    return list(ox.scripts(4, KINDS_T, leaves=[('none',), ('int', 1), ('dstr', 'xy')], root_kinds=ROOTK))


def init():
    # the host grammar is compiled twice under the same name: the module in use is a re-compilation
    # (pickling must follow the module that is installed now)
    g0 = ox.host(HOSTNAME)
    g = ox.host(HOSTNAME)
    return {'g': g, 'g0': g0}


CHAIN = ['grammar %(a)s\nclass K1 { a: "1" }\nclass K2 { a: "2"; b: K1 }\nstart = K2\n',
         'grammar %(b)s extends %(a)s\nclass B1 { x: K1; y: "b" }\nMid = B1\n',
         'grammar %(c)s extends %(b)s\nclass C1 { p: B1; q: K2? }\nstart = C1\n']


CHAIN_A2 = 'grammar %(a)s\nclass K1 { a: "1" | "3" }\nclass K3 { c: "9" }\nclass K2 { a: "2"; b: K1 | K3 }\nstart = K2\n'


def chain_job(st):
    """objects of a three-level chain: repr / copy / pickle in the namespace of the most derived module"""
    res = {'ctr': {'cases': 0, 'nontrivial': 0, 'states': 0, 'transitions': 0}, 'sets': {}, 'viol': [], 'viol_keys': []}
    sigs = set()
    names = {'a': 'vf_c14_a', 'b': 'vf_c14_b', 'c': 'vf_c14_c'}
    mods = []
    for d in CHAIN:
        b = impl.build(d % names)
        if b[0] != 'OK':
            viol(res, sigs, 'chain COMPILE', (('chain',),), list(b))
            return res
        mods.append(b[1])
    top = mods[-1]
    for text in ('1b', '1b21'):
        r = top.parse(text)
        for o in top.visit(r):
            for name, f in (('repr', lambda: eval(repr(o), dict(vars(top))) == o),
                            ('deepcopy', lambda: copy.deepcopy(o) == o),
                            ('pickle', lambda: pickle.loads(pickle.dumps(o)) == o)):
                res['ctr']['cases'] += 1
                res['ctr']['states'] += 1
                res['ctr']['nontrivial'] += 1
                try:
                    ok = f()
                    why = None if ok else 'not equal'
                except Exception as x:
                    why = '%s' % type(x).__name__
                if why:
                    viol(res, sigs, 'chain-%s %s' % (name, why), (('chain', type(o).__name__, text),), why)
    # the base is compiled again under its name with one more class, then its descendants are compiled again (same
    # descriptions): objects of the new leaf live in the new leaf's namespace
    mods = []
    for d in [CHAIN_A2] + CHAIN[1:]:
        b = impl.build(d % names)
        if b[0] != 'OK':
            viol(res, sigs, 'revised-chain COMPILE', (('chain',),), list(b))
            break
        mods.append(b[1])
    else:
        top = mods[-1]
        for text in ('1b', '1b29', '3b21'):
            try:
                r = top.parse(text)
            except Exception as x:
                viol(res, sigs, 'revised-chain parse %s' % type(x).__name__, (('chain', text),), str(x)[:80])
                continue
            for o in top.visit(r):
                for name, f in (('repr', lambda: eval(repr(o), dict(vars(top))) == o),
                                ('deepcopy', lambda: copy.deepcopy(o) == o),
                                ('pickle', lambda: pickle.loads(pickle.dumps(o)) == o)):
                    res['ctr']['cases'] += 1
                    res['ctr']['states'] += 1
                    try:
                        why = None if f() else 'not equal'
                    except Exception as x:
                        why = '%s' % type(x).__name__
                    if why:
                        viol(res, sigs, 'revised-chain-%s %s' % (name, why), (('chain', type(o).__name__, text),), why)
    for n in names.values():
        impl.uninstall(n)
    res['sample'] = {'chain': [d % names for d in CHAIN]}
    return res


DOTTED = ['vf_c14_pkg.alpha', 'vf_c14_pkg.beta', 'vf_c14_pkg.sub.gamma', 'vf_c14_pkg.sub.delta', 'vf_c14_pkg.sub', 'vf_c14_pkg.alpha']


def dotted_job(st):
    """grammars installed under dotted names (first and later members of a package, a name that is also a package,
    a recompiled name): objects pickle / copy / repr like those of any named grammar"""
    res = {'ctr': {'cases': 0, 'nontrivial': 0, 'states': 0, 'transitions': 0}, 'sets': {}, 'viol': [], 'viol_keys': []}
    sigs = set()
    mods = []
    for n in DOTTED:
        b = impl.build(ox.HOST % ('grammar %s' % n))
        if b[0] != 'OK':
            viol(res, sigs, 'dotted COMPILE', (('dotted', n),), list(b))
            return res
        mods.append((n, b[1]))
    # all modules exist before the first object is pickled; the first 'alpha' module has been replaced
    for k, (n, g) in enumerate(mods[1:], 1):
        for o in (g.K2.parse('23'), g.K1('1'), g.K0(), g.Infix(g.K1('1'), '+', [g.K0()])):
            for name, f in (('repr', lambda: eval(repr(o), dict(vars(g))) == o),
                            ('deepcopy', lambda: copy.deepcopy(o) == o),
                            ('pickle', lambda: pickle.loads(pickle.dumps(o)) == o and type(pickle.loads(pickle.dumps(o))) is type(o))):
                res['ctr']['cases'] += 1
                res['ctr']['states'] += 1
                res['ctr']['nontrivial'] += 1
                try:
                    why = None if f() else 'not equal'
                except Exception as x:
                    why = '%s' % type(x).__name__
                if why:
                    viol(res, sigs, 'dotted-%s %s' % (name, why), (('dotted', n, k, type(o).__name__),), why)
    for n in ('vf_c14_pkg.alpha', 'vf_c14_pkg.beta', 'vf_c14_pkg.sub.gamma', 'vf_c14_pkg.sub.delta', 'vf_c14_pkg.sub', 'vf_c14_pkg'):
        impl.uninstall(n)
    res['sample'] = {'dotted': DOTTED}
    return res


def long_job(st):
    """fields holding long containers (up to 40 items), built, hashed and dropped in a loop so that later containers are
    allocated where hashed ones lived: an object always has the hash of its independently built equal"""
    res = {'ctr': {'cases': 0, 'nontrivial': 0, 'states': 0, 'transitions': 0}, 'sets': {}, 'viol': [], 'viol_keys': []}
    sigs = set()
    g = st['g']
    makers = {'list': lambda xs: list(xs), 'tuple': lambda xs: tuple(xs), 'dict': lambda xs: {x: x for x in xs},
              'nested': lambda xs: [list(xs), tuple(xs)]}
    for kind, mk in makers.items():
        for n in (1, 7, 8, 9, 10, 16, 17, 40):
            for rnd in range(40):
                res['ctr']['cases'] += 1
                res['ctr']['states'] += 1
                res['ctr']['nontrivial'] += 1
                a = g.K2(mk(range(rnd, rnd + n)), 'x')
                ha = hash(a)
                del a
                b = g.K2(mk(range(rnd + 1, rnd + 1 + n)), 'x')
                hb = hash(b)
                twin = g.K2(mk(range(rnd + 1, rnd + 1 + n)), 'x')
                r2 = b._replace(b='x')
                why = None
                if not (b == twin and twin == b and b == r2):
                    why = 'equal builds differ'
                elif hash(twin) != hb or hash(r2) != hb or hash(b) != hb:
                    why = 'equal objects, different hash'
                elif len({b, twin, r2}) != 1:
                    why = 'a set keeps equal objects apart'
                if why:
                    viol(res, sigs, 'long-container %s' % why, (('long', kind, n, rnd),), why)
    res['sample'] = {'long': sorted(makers)}
    return res


def same_value(g, got, want):
    """got must be ==, !=-consistent and hash-equal to an independently built equal object"""
    if not ox.ref_eq(g, got, want):
        return 'not structurally equal to the expected object'
    if not (got == want and want == got) or (got != want):
        return '== disagrees for the result'
    if hash(got) != hash(want):
        return 'result equal to expected object but hash differs'
    return None


def viol(res, sigs, sig, script, extra=None):
    case = {'script': [list(map(str, s)) if isinstance(s, (tuple, list)) else [str(s)] for s in script], 'op': sig, 'extra': extra}
    key = case_key(case)
    res['viol_keys'].append((key, sig))
    if sig not in sigs:
        sigs.add(sig)
        res['viol'].append({'sig': sig, 'key': key, 'case': {'script': script, 'extra': extra, 'op': sig},
                            'expected': 'value semantics (see DESIGN 3/C14)', 'got': extra})


def mutable_ids(g, x, out):
    if isinstance(x, (list, dict)) or ox.is_po(g, x):
        if id(x) in out:
            return out
        out.add(id(x))
    for _, c in ox.children(g, x):
        mutable_ids(g, c, out)
    return out


def single_job(job, st):
    """per-root checks on every graph of slice `k`"""
    tier, k = job
    g = st['g']
    res = {'ctr': {'cases': 0, 'nontrivial': 0, 'states': 0, 'transitions': 0}, 'sets': {}, 'viol': [], 'viol_keys': []}
    sigs = set()
    scripts = st.setdefault('single_' + tier, universe(tier, 'single'))
    values = [None, 'Z', [1], {'k': 1}]
    for idx in range(k, len(scripts), NSLICES):
        script = scripts[idx]
        objs = ox.construct(script, g)
        r = objs[-1]
        res['ctr']['states'] += 1
        fake = ('fake-position', idx)
        r._metadata.position_info = fake
        hasnan = any(sp[0] == 'nan' for sp in script)
        snap = ox.snapshot(g, r)
        shared = len(set(i for s in script for i in s[1:] if isinstance(i, int))) < sum(1 for s in script for i in s[1:] if isinstance(i, int))
        if shared or any(s[0] in ('list', 'tuple', 'dict') for s in script):
            res['ctr']['nontrivial'] += 1

        def op(name, f):
            res['ctr']['cases'] += 1
            res['ctr']['transitions'] += 1
            try:
                why = f()
            except RecursionError:
                why = 'RecursionError'
            except Exception as x:
                why = '%s: %s' % (type(x).__name__, str(x)[:60])
            if why:
                viol(res, sigs, '%s %s' % (name, why if len(str(why)) < 40 else str(why)[:40]), script, str(why))

        def t_eq():
            if not (r == r) or (r != r):
                return 'not reflexive'
            if hasnan:
                # a second build holds other NaN objects (legitimately unequal); an object sharing the leaves is equal
                r3 = type(r)(**r._asdict())
                if not (r == r3 and r3 == r) or hash(r) != hash(r3):
                    return 'object built from the same field values differs'
                return None
            r2 = ox.construct(script, g)[-1]
            if not (r == r2 and r2 == r):
                return 'fresh equal copy differs'
            if hash(r) != hash(r2):
                return 'equal objects, different hash'
        op('eq-hash', t_eq)

        def t_asdict():
            d = r._asdict()
            if list(d) != list(ox.FIELDS[type(r).__name__]):
                return 'order'
            if any(d[f] is not getattr(r, f) for f in d):
                return 'values'
            # an attribute a user sets on a node is not a field
            if hasnan:
                return None
            r.user_note = 5
            try:
                if list(r._asdict()) != list(ox.FIELDS[type(r).__name__]):
                    return 'non-field attribute in _asdict'
                if not (r == ox.construct(script, g)[-1]):
                    return 'non-field attribute changes =='
            finally:
                del r.user_note
        op('asdict', t_asdict)

        def t_replace():
            for f in r._fields:
                for v in values:
                    n = r._replace(**{f: v})
                    if n is r:
                        return 'same object'
                    if type(n) is not type(r):
                        return 'class changed'
                    if getattr(n, f) is not v:
                        return 'field not replaced'
                    if any(getattr(n, x) is not getattr(r, x) for x in r._fields if x != f):
                        return 'other field changed'
                    if n._metadata.position_info != fake:
                        return 'metadata lost'
                    if ox.snapshot(g, r) != snap:
                        return 'original modified'
                    # the copy is independent: its metadata is its own (writes on either side stay there)
                    n._metadata.position_info = ('moved', f)
                    n._metadata.note = 1
                    if ox.snapshot(g, r) != snap:
                        return 'metadata write on the copy shows on the original'
                    r._metadata.other_note = 2
                    leaked = 'other_note' in n._metadata._fields
                    del r._metadata._fields['other_note']
                    if leaked:
                        return 'metadata write on the original shows on the copy'
                    # the result as a value: compare with an independently constructed object
                    d = dict(r._asdict())
                    d[f] = v
                    w = same_value(g, n, type(r)(**d))
                    if w:
                        return w
            n = r._replace()
            if n is r or not (n == r):
                return 'empty replace'
        op('replace', t_replace)

        def t_deepcopy():
            c = copy.deepcopy(r)
            if not ox.ref_eq(g, c, r) or not (c == r):
                return 'copy not equal'
            if c is r or (mutable_ids(g, c, set()) & mutable_ids(g, r, set())):
                return 'copy not independent'
            if ox.snapshot(g, c) != snap:
                return 'metadata differs'
            if ox.snapshot(g, r) != snap:
                return 'original modified'
            c._metadata.note = 1
            if ox.snapshot(g, r) != snap:
                return 'metadata write on the copy shows on the original'
            return same_value(g, c, r if hasnan else ox.construct(script, g)[-1])
        op('deepcopy', t_deepcopy)
        if hasnan:
            continue            # pickling and repr create new NaN objects

        def t_pickle():
            for proto in range(0, pickle.HIGHEST_PROTOCOL + 1):
                c = pickle.loads(pickle.dumps(r, proto))
                if not ox.ref_eq(g, c, r) or not (c == r):
                    return 'round trip not equal (protocol %d)' % proto
                if ox.snapshot(g, c) != snap:
                    return 'metadata differs (protocol %d)' % proto
                w = same_value(g, c, ox.construct(script, g)[-1])
                if w:
                    return w
        op('pickle', t_pickle)

        def t_copy():
            c = copy.copy(r)
            if c is r or type(c) is not type(r) or not (c == r) or hash(c) != hash(r):
                return 'shallow copy not an equal new object'
            if any(getattr(c, f) is not getattr(r, f) for f in r._fields):
                return 'shallow copy does not share the field values'
            if ox.snapshot(g, c) != snap:
                return 'metadata differs'
        op('copy', t_copy)

        def t_repr():
            c = eval(repr(r), dict(vars(g)))
            if not ox.ref_eq(g, c, r) or not (c == r):
                return 'eval(repr) not equal'
            return same_value(g, c, ox.construct(script, g)[-1])
        op('repr', t_repr)
    res['sample'] = {'script': scripts[k] if k < len(scripts) else None, 'ops': ['eq-hash', 'asdict', 'replace x4 values', 'deepcopy', 'pickle', 'repr']}
    return res


def extra_roots(g, g0=None):
    """objects obtained from parse (real position metadata) and their hand-built equals; with g0 also objects of
    look-alike classes: the same description compiled earlier under the same name (a different class: never equal)"""
    out = []
    if g0 is not None:
        out.append(g0.K2('2', '3'))
        out.append(g0.K1('1'))
        out.append(g0.K0())
        out.append(g0.K2.parse('23'))
        out.append(g0.Infix(g0.K1('1'), '+', [g0.K0()]))
    out.append(g.K2.parse('23'))
    out.append(g.K2.parse('x23', 1))
    out.append(g.K2('2', '3'))
    out.append(g.M2.parse('32'))
    out.append(g.M2('3', '2'))
    out.append(g.L2('2', '3'))           # another class with the field names (and here values) of K2: never equal to a K2
    out.append(g.L2.parse('23'))
    out.append(g.K1.parse('1'))
    out.append(g.K1('1'))
    out.append(g.K0.parse('0'))
    out.append(g.K0())
    out.append(g.Infix(g.K1('1'), '+', [g.K0()]))
    out.append(g.Infix(g.K1.parse('1'), '+', [g.K0.parse('0')]))
    return out


def pair_job(job, st):
    tier, k = job
    g = st['g']
    res = {'ctr': {'cases': 0, 'nontrivial': 0, 'states': 0, 'transitions': 0}, 'sets': {}, 'viol': [], 'viol_keys': []}
    sigs = set()
    key = 'pairs_' + tier
    if key not in st:
        scripts = universe(tier, 'pairs')
        roots = [ox.construct(s, g)[-1] for s in scripts]
        roots2 = [ox.construct(s, g)[-1] for s in scripts]      # an independent second build
        ex = extra_roots(g, st['g0'])
        st[key] = (scripts, roots + ex, roots2 + extra_roots(g, st['g0']))
    scripts, A, Bs = st[key]
    n = len(A)
    classes = {}
    for i in range(k, n, NSLICES):
        a = A[i]
        res['ctr']['states'] += 1
        for j in range(n):
            b = Bs[j]
            res['ctr']['cases'] += 1
            res['ctr']['transitions'] += 1
            try:
                e = (a == b)
                ne = (a != b)
                e2 = (b == a)
                want = ox.ref_eq(g, a, b)
                why = None
                if e != want:
                    why = 'eq-disagrees-with-structural-equality'
                elif ne == e:
                    why = 'ne-inconsistent'
                elif e != e2:
                    why = 'eq-not-symmetric'
                elif e and hash(a) != hash(b):
                    why = 'equal-objects-different-hash'
                if e:
                    res['ctr']['nontrivial'] += 1
                    classes.setdefault(i, []).append(j)
            except Exception as x:
                why = 'EXC:%s' % type(x).__name__
            if why:
                sa = scripts[i] if i < len(scripts) else ('extra', i - len(scripts))
                sb = scripts[j] if j < len(scripts) else ('extra', j - len(scripts))
                viol(res, sigs, 'pair ' + why, sa, {'other': sb})
    # transitivity inside equality classes (triples)
    for i, js in classes.items():
        for j in js:
            for l in js:
                res['ctr']['cases'] += 1
                if not (Bs[j] == A[l]):
                    viol(res, sigs, 'triple not-transitive', scripts[i] if i < len(scripts) else ('extra',), {'j': j, 'l': l})
    res['sample'] = {'pair': [scripts[k % len(scripts)], scripts[(k * 7 + 1) % len(scripts)]]}
    return res


def dispatch(job, st):
    if job[0] == 'chain':
        return chain_job(st)
    if job[0] == 'dotted':
        return dotted_job(st)
    if job[0] == 'long':
        return long_job(st)
    if job[0] == 'single':
        return single_job(job[1:], st)
    return pair_job(job[1:], st)


def run(tier, seed):
    chk = Check('C14', tier, seed)
    chk.rule = ('object graphs given by construction scripts: all rooted DAGs with <=4 nodes over leaves {None, 1, interned str, '
                'equal-but-distinct str} and containers/objects {list, tuple, dict, K0, K1, K2, M2, Infix, Prefix(, Postfix)} with every '
                'child slot either new or a back-reference to any earlier node (all aliasing patterns); per root: reflexivity, '
                'fresh-copy equality+hash, _asdict, copy.copy, every pickle protocol, every single-field _replace x 4 values (metadata kept, and independent of the original in both directions), deepcopy, pickle, eval(repr); also <=3 nodes over NaN leaves; containers of 1..40 items built, hashed and dropped in a loop (address reuse); objects of a 3-level chain (also after its base was revised under the same name and the chain rebuilt) and of 6 grammars under dotted names (later members of a package, recompiled names): repr / deepcopy / pickle; all ordered '
                'pairs (quick: <=3 nodes; thorough: <=4 nodes over a reduced alphabet) incl. parsed objects with real metadata vs '
                'hand-built equals: == vs reference structural equality, symmetry, !=, hash; triples inside equality classes; '
                'non-trivial = graphs with containers or sharing (single) / equal pairs (pairs)')
    chk.assumptions = ['reference structural equality vf/ox.py:ref_eq', 'CPython copy/pickle protocols']
    jobs = [('chain',), ('dotted',), ('long',)] + [('single', tier, k) for k in range(NSLICES)] + [('pairs', tier, k) for k in range(NSLICES)]
    chk.explore(dispatch, jobs, init=init, chunk=1, job_deadline=900)
    return chk.finish(floor=1000)


def replay(rep):
    g = ox.host(HOSTNAME)
    case = rep['case']
    script = [tuple(tuple(x) if isinstance(x, list) else x for x in s) for s in case['script']]
    r = ox.construct(script, g)[-1]
    print('root:', repr(r))
    op = case['op'].split()[0]
    try:
        if op == 'deepcopy':
            c = copy.deepcopy(r)
            print('deepcopy ok:', c == r)
            return 0 if c == r else 1
        if op == 'pickle':
            c = pickle.loads(pickle.dumps(r))
            return 0 if c == r else 1
        if op == 'repr':
            return 0 if eval(repr(r), dict(vars(g))) == r else 1
    except Exception as x:
        print('raises', type(x).__name__, str(x)[:100])
        return 1
    print('(re-run ./check C14 quick for pair cases)')
    return 1
