"""C01 - PEG semantics of the core expressions (DESIGN 3/C01)."""
from .. import e1
from ..core import Check

LEAVES = [
    ('str', 'a'), ('str', 'b'), ('str', 'ab'), ('str', ''), ('stri', 'a'),
    ('re', 'a+'), ('re', 'b?'), ('ref', 'Rab'), ('re', '(?!b)a*'), ('fail',), ('back', 1),
]       # /(?!b)a*/ matches the empty string yet can fail
SMALL_LEAVES = [('str', 'a'), ('str', 'ab'), ('re', 'b?'), ('ref', 'Rab'), ('back', 1)]
TINY_LEAVES = [('str', 'a'), ('str', 'ab')]
LITERAL_FORMS = [(k, v) for k in ('str', 'stri', 're', 'rei') for v in ('a', 'A', 'ab')]
AUX = [('Rab', ('rule', None, ('seq', ('str', 'a'), ('str', 'b')))),
       ('Ra', ('rule', None, ('str', 'a')))]
AUXD = dict(AUX)
REC = [('Rp', ('rule', None, ('seq', ('str', 'a'), ('opt', ('ref', 'Rp')), ('str', 'b'))))]
UN = ['opt', 'star', 'plus', 'expect', 'expectnot', 'skip']
BIN = ['seq', 'right', 'left', 'choice', 'longest']


def nullable(e, aux):
    k = e[0]
    if k == 'str':
        return e[1] in ('', b'')
    if k in ('stri', 'byte', 'fail'):
        return False
    if k == 're':
        import re
        p = e[1].encode() if isinstance(e[1], str) else e[1]
        return re.compile(p).match(b'') is not None
    if k == 'ref':
        d = aux.get(e[1])
        if d is None:
            return True
        if e[1] == 'Rp':
            return False
        return nullable(d[2], aux)
    if k == 'back':
        return True
    if k in ('where', 'apply', 'applyl'):
        return nullable(e[1], aux)
    if k == 'sep':
        return e[5]
    if k == 'rep':
        return not e[2] or nullable(e[1], aux)
    if k in ('opt', 'star', 'expect', 'expectnot', 'skip'):
        return True
    if k == 'plus':
        return nullable(e[1], aux)
    if k in ('seq', 'right', 'left'):
        return all(nullable(x, aux) for x in e[1:])
    if k in ('choice', 'longest'):
        return any(nullable(x, aux) for x in e[1:])
    return True


def hasback(e):
    return e[0] == 'back' or any(isinstance(x, tuple) and hasback(x) for x in e[1:])


def wellformed(e, aux):
    k = e[0]
    for x in e[1:]:
        if isinstance(x, tuple) and not wellformed(x, aux):
            return False
    if k in ('star', 'plus', 'skip'):
        for x in e[1:]:
            if nullable(x, aux) or hasback(x):
                return False
    return True


def gen(nops, leaves):
    if nops == 0:
        yield from leaves
        return
    for u in UN:
        for c in gen(nops - 1, leaves):
            yield (u, c)
    for b in BIN:
        for i in range(nops):
            for l in gen(i, leaves):
                for r in gen(nops - 1 - i, leaves):
                    yield (b, l, r)


def nary(leaves):
    """n-ary forms over leaves: a|b|c, [a,b,c], Skip(a,b), Longest(a,b,c)"""
    for a in leaves:
        for b in leaves:
            yield ('skip', a, b)
            for c in leaves:
                yield ('choice', a, b, c)
                yield ('seq', a, b, c)
                yield ('longest', a, b, c)


def to_bytes(e):
    k = e[0]
    if k in ('str', 'stri'):
        return (k, e[1].encode())
    if k in ('re', 'rei', 'ref', 'fail', 'back'):
        return e
    return (k,) + tuple(to_bytes(x) if isinstance(x, tuple) else x for x in e[1:])


def universe(tier):
    """yields (tag, expr, aux rules, bytes_mode, input set name)"""
    aux = AUXD
    for n in range(0, 3):
        for e in gen(n, LEAVES):
            if wellformed(e, aux):
                yield ('text<=2', e, AUX, False, 'abA:4')
    for e in nary(LEAVES):
        if wellformed(e, aux):
            yield ('text-nary', e, AUX, False, 'abA:4')
    # three operators over a two-leaf alphabet: every grandparent/parent/child combination of
    # constructors (static flags of composite children: Opt(..), (..)*, Skip(..) always succeed but consume)
    for e in gen(3, TINY_LEAVES):
        if wellformed(e, aux):
            yield ('text=3/tiny', e, AUX, False, 'abA:4')
    # every pair of literal forms (kind x spelling x case flag) in every binary construct and across
    # rules: literals that share a pattern or spelling but differ in kind or flag
    for x in LITERAL_FORMS:
        for y in LITERAL_FORMS:
            for b in BIN:
                yield ('literal-pairs', (b, x, y), AUX, False, 'abA:4')
            yield ('literal-pairs', ('seq', x, ('ref', 'Ry')), AUX + [('Ry', ('rule', None, y))], False, 'abA:4')
    # the empty sequence [] (succeeds with [] without consuming) in every binary construct
    E0 = ('seq',)
    for x in (('str', 'a'), ('ref', 'Rab'), ('re', 'b?'), E0):
        for b in BIN:
            yield ('empty-sequence', (b, E0, x), AUX, False, 'abA:3')
            yield ('empty-sequence', (b, x, E0), AUX, False, 'abA:3')
    for u in ('opt', 'expect', 'expectnot'):
        yield ('empty-sequence', (u, E0), AUX, False, 'abA:3')
    yield ('empty-sequence', E0, AUX, False, 'abA:3')
    # literal shapes: case-insensitive and plain literals that mix letters with digits, blanks and punctuation, on every
    # case variant of their own spelling
    for spelling in ('a1', '1a', 'a b', 'a_b', 'aB', 'a-b:', 'ab', 'a\rb', '\r\n', 'a\x00', '\ta"\\'):
        variants = set()
        for bits in range(1 << len(spelling)):
            v = ''.join(c.upper() if bits >> i & 1 else c.lower() for i, c in enumerate(spelling))
            variants.update((v, v + 'x', v[:-1], 'x' + v, v + v))
        inputs = sorted(variants)
        for kind in ('str', 'stri'):
            x = (kind, spelling)
            for e in (x, ('seq', x, ('opt', ('str', 'x'))), ('choice', x, ('re', '.*')), ('star', x), ('seq', ('stri', 'x'), x)):
                yield ('literal-shapes', e, AUX, False, inputs)
                yield ('literal-shapes/bytes', to_bytes(e), [(k, (d[0], d[1], to_bytes(d[2]))) for k, d in AUX], True, inputs)
    # bytes mode
    bl = [('str', 'a'), ('str', 'ab'), ('str', ''), ('re', 'a+'), ('re', 'b?'), ('byte', 0x61),
          ('byte', 0x62), ('ref', 'Rab'), ('fail',), ('back', 1)]
    for n in range(0, 2 if tier == 'quick' else 3):
        for e in gen(n, bl):
            if wellformed(e, aux):
                yield ('bytes', to_bytes(e), [(k, (d[0], d[1], to_bytes(d[2]))) for k, d in AUX], True, 'abA:4')
    # bytes mode, two operators over a four-leaf alphabet
    bl4 = [('str', 'a'), ('str', 'ab'), ('byte', 0x61), ('re', 'b?')]
    if tier == 'quick':
        for e in gen(2, bl4):
            if wellformed(e, aux):
                yield ('bytes=2/small', to_bytes(e), [(k, (d[0], d[1], to_bytes(d[2]))) for k, d in AUX], True, 'abA:4')
    if tier == 'thorough':
        for e in gen(3, SMALL_LEAVES):
            if wellformed(e, aux):
                yield ('text=3', e, AUX, False, 'abA:4')
        for n in range(0, 3):
            for e in gen(n, LEAVES):
                if wellformed(e, aux):
                    yield ('text<=2/len5', e, AUX, False, 'abA:5')
        rl = [('str', 'a'), ('str', 'b'), ('ref', 'Rp'), ('re', 'b?'), ('back', 1)]
        auxr = dict(AUXD)
        auxr.update(dict(REC))
        for n in range(0, 3):
            for e in gen(n, rl):
                if wellformed(e, auxr):
                    yield ('recursive', e, AUX + REC, False, 'ab:6')


def jobs(tier):
    for tag, e, aux, bm, inp in universe(tier):
        rules = [('start', ('rule', None, e))] + list(aux)
        mods = [(tuple(rules), (), 'start', None, (), bm, 'named', None)]
        yield {'mods': mods, 'inputs': inp, 'mode': 'simple', 'tag': tag}


def run(tier, seed):
    chk = Check('C01', tier, seed)
    chk.rule = ('every well-formed expression over the leaf/constructor alphabet up to the operator '
                'bound, as start rule, x every input up to the length bound; a case is non-trivial '
                'when the model run contains a sub-failure after progress (a restore is needed)')
    chk.assumptions = ['Python re and str semantics (shared with the model)',
                       'reference interpreter vf/model.py (self-checked by vf.selftest)']
    chk.explore(e1.run_job, jobs(tier), chunk=24)
    return chk.finish(floor=1000)


def replay(case):
    return e1.replay_case(case, 'simple')
