"""C13 - inheritance: overrides are late-bound, super is the parent, parent untouched (DESIGN 3/C13)."""
import itertools
import os
import sys

from .. import e1, impl, render
from ..core import Check, case_key
from ..model import Spec

A, B, C = ('str', 'a'), ('str', 'b'), ('str', 'c')
BASE = [
    ('start', ('rule', None, ('star', ('choice', ('ref', 'X'), ('ref', 'Y'))))),
    ('X', ('rule', None, A)),
    ('Y', ('class', None, [('y', False, ('call', 'T', [B], []))])),
    ('T', ('rule', ['p'], ('seq', ('ref', 'p'), ('ref', 'X')))),
]
RULES = ('start', 'X', 'Y', 'T')
DEEP = 16       # transparent layers ("" >> e) around the base start rule: each nests Python blocks, so the
                # inner part (with its references to overridable rules) is compiled into a helper function


def base_rules(deep):
    if not deep:
        return list(BASE)
    e = BASE[0][1][2]
    for _ in range(DEEP):
        e = ('right', ('str', ''), e)
    return [('start', ('rule', None, e))] + list(BASE[1:])


def variants(name, lvl):
    """inherit / override / override using super / override using a new rule"""
    lit = C if lvl == 1 else ('str', 'ca')
    yield None, []
    if name == 'X':
        yield ('rule', None, lit), []
        yield ('rule', None, ('choice', lit, ('super', 'X'))), []
        yield ('rule', None, ('choice', ('ref', 'N%d' % lvl), ('super', 'X'))), [('N%d' % lvl, ('rule', None, lit))]
        # unlike the one-token base rule this override can fail after consuming input: the inherited callers
        # ((X | Y)* in start, [p, X] in T) must still restore the position
        yield ('rule', None, ('left', ('re', '[ab]'), lit)), []
    if name == 'Y':
        # an inherited rule passed as a bare argument from the derived grammar
        yield ('class', None, [('y', False, ('call', 'T', [('ref', 'X')], []))]), []
        # the same definition again, now textually in the derived grammar (same literal argument, the derived grammar's ignore)
        yield ('class', None, [('y', False, ('call', 'T', [B], []))]), []
        yield ('class', None, [('y', False, ('seq', lit, ('ref', 'X')))]), []
        yield ('rule', None, ('choice', ('seq', lit, ('ref', 'X')), ('super', 'Y'))), []
    if name == 'T':
        yield ('rule', ['p'], ('seq', ('ref', 'p'), ('ref', 'p'), ('ref', 'X'))), []
        yield ('rule', ['p'], ('choice', ('seq', lit, ('supercall', 'T', [('ref', 'p')], [])), ('supercall', 'T', [('ref', 'p')], []))), []
    if name == 'start':
        yield ('rule', None, ('seq', ('ref', 'X'), ('ref', 'Y'))), []
        yield ('rule', None, ('choice', ('seq', lit, lit), ('super', 'start'))), []


SP, TL = ('re', ' +'), ('re', '~+')
# ignore patterns per level (A, B, C)
IGN2 = [((), ()), ((SP,), ()), ((), (SP,)), ((SP,), (TL,))]
IGN3 = [((), (), ()), ((SP,), (), ()), ((), (SP,), ()), ((SP,), (TL,), ()), ((), (), (SP,)), ((SP,), (), (TL,)),
        ((), (SP,), (TL,))]


def level_choices(lvl):
    per = [list(variants(n, lvl)) for n in RULES]
    return list(itertools.product(*per))


def chains(tier):
    """yield (levels, ignore config, ignore style, dotted)  levels: [rules of A, rules of B, (rules of C)]"""
    one = level_choices(1)
    two = level_choices(2)
    for combo in one:
        for ig in IGN2:
            for style in (('named', 'anon') if any(ig) else ('named',)):
                for dotted in (False, True, 'deep', 'ovign'):
                    if dotted in ('deep', 'ovign') and style == 'anon':
                        continue
                    if dotted == 'ovign' and not ig[0]:
                        continue        # (needs a named ignore rule in the base to override)
                    if tier == 'quick' and dotted and sum(1 for d, _ in combo if d is not None) > 2:
                        continue
                    yield [combo], ig, style, dotted
    for c1 in one:
        for c2 in two:
            departs1 = sum(1 for d, _ in c1 if d is not None)
            departs2 = sum(1 for d, _ in c2 if d is not None)
            if tier == 'quick':
                if departs1 > 1 or departs2 > 1:
                    continue
                igs = IGN3[:1] + ([IGN3[1], IGN3[3], IGN3[5]] if (departs1 + departs2) <= 1 else [])
            else:
                # thorough: every chain without ignore; every ignore placement for chains with <= 4 departures in all
                igs = IGN3 if departs1 + departs2 <= 4 else IGN3[:1]
            for ig in igs:
                for style in (('named', 'anon') if any(ig) and tier == 'thorough' else ('named',)):
                    yield [c1, c2], ig, style, False
            if departs1 + departs2 <= 2:
                yield [c1, c2], IGN3[0], 'named', 'deep'


def build_specs(levels, ig, style, deep=False):
    specs = [Spec(base_rules(deep), ignores=list(ig[0]), ignore_style=style)]
    specs[0].ignore_prefix = 'IgA'
    known = {n for n, _ in BASE}
    for i, combo in enumerate(levels, 1):
        rules = []
        ov = set()
        for name, (d, extra) in zip(RULES, combo):
            if d is not None:
                rules.append((name, d))
                if d[0] == 'rule' and name in known:
                    ov.add(name)
                rules.extend(extra)
        rules.append(('Zz%d' % i, ('rule', None, ('str', 'z'))))      # a derived grammar needs >= 1 statement
        sp = Spec(rules, ignores=list(ig[i]), ignore_style=style, start='start')
        sp.overrides = ov
        sp.ignore_prefix = 'Ig' + 'ABC'[i]
        known |= {n for n, _ in rules}
        specs.append(sp)
    return specs


INPUTS = e1.strings('abc ', 3) + ['a b', 'ab c', ' ab', 'abab', 'ca b', 'a~b', 'a ~ b', '~a', 'cab a', 'bca', 'ccab', 'cc a']


def run_job(job):
    res = run_chain(job, reverse=False)
    levels = job[0]
    if len(levels) == 1 and not any('COMPILE' in v['sig'] or 'DIVERGES' in v['sig'] for v in res['viol']):
        # the same chain built afresh and used in the opposite order (most derived module first)
        r2 = run_chain(job, reverse=True)
        for k, v in r2['ctr'].items():
            res['ctr'][k] = res['ctr'].get(k, 0) + v
        res['viol'] += r2['viol']
        res['viol_keys'] += r2['viol_keys']
    return res


def run_chain(job, reverse):
    levels, ig, style, dotted = job
    res = {'ctr': {}, 'sets': {}, 'viol': [], 'viol_keys': []}
    ctr = res['ctr']

    def bump(k, n=1):
        ctr[k] = ctr.get(k, 0) + n
    deep = dotted == 'deep'
    ovign = dotted == 'ovign'
    dotted = dotted is True
    specs = build_specs(levels, ig, style, deep)
    if ovign:
        # the derived grammar overrides the base's named ignore rule: blanks are no longer skipped, '~' is
        specs[1].rules.append(('IgA0', ('rule', None, ('re', '~+'))))
        specs[1].ruledict['IgA0'] = ('rule', None, ('re', '~+'))
        specs[1].overrides = set(specs[1].overrides) | {'IgA0'}
    uid = e1.unique_name('c13')
    names = []
    for i, sp in enumerate(specs):
        # dotted names: the modules of a chain share their LAST component (pkg.v0.core <- pkg.v1.core ...)
        nm = ('%s_pkg.v%d.core' % (uid, i)) if dotted else '%s_m%d' % (uid, i)
        sp.name = nm
        sp.parent_name = names[-1] if names else None
        names.append(nm)
    descs = [render.spec(sp) for sp in specs]
    kdescs = [d.replace(uid, 'U') for d in descs]
    tag = 'chain%d%s%s%s%s' % (len(specs), '/ignore' if any(ig) else '', '/dotted' if dotted else '', '/deep' if deep else '',
                                '/ignore-rule-overridden' if ovign else '')
    mods = []
    baseline = {}     # (module index) -> outcome table recorded right after the module was built
    sigs = set()

    diverged = [False]

    def table(i):
        # (a call that does not come back costs half a minute of patience: after the first one nothing more is recorded;
        # the comparison with the model below reports it and abandons the chain)
        g = mods[i]
        out = []
        for t in INPUTS[:90]:
            if diverged[0]:
                out.append(('NOT-RUN', None, None))
                continue
            o = impl.run(g.parse, e1.fresh(t), 0, True, spans=False, time_limit=1.0, patient=True)
            if o['kind'] == 'DIVERGES':
                diverged[0] = True
            out.append((o['kind'], o.get('value'), o.get('index')))
        return out

    def check_unchanged(when):
        if diverged[0]:
            return
        for i, tb in baseline.items():
            now = table(i)
            bump('cases', len(now))
            if now != tb:
                k = next(j for j in range(len(now)) if now[j] != tb[j])
                case = {'descs': kdescs, 'what': 'module %d changed %s' % (i, when), 'text': INPUTS[k]}
                sig = '%s ancestor-behaviour-changed-%s' % (tag, when.split()[0])
                key = case_key(case)
                res['viol_keys'].append((key, sig))
                if sig not in sigs:
                    sigs.add(sig)
                    res['viol'].append({'sig': sig, 'key': key, 'case': case, 'expected': list(tb[k]), 'got': list(now[k])})

    try:
        for i, d in enumerate(descs):
            b = impl.build(d, time_limit=20.0)
            if b[0] != 'OK':
                bump('compile_failures')
                case = {'descs': kdescs, 'what': 'Grammar()', 'module': i}
                res['viol'].append({'sig': '%s COMPILE %s %s' % (tag, b[0], b[1] if len(b) > 1 else ''), 'case': case,
                                    'expected': 'a module', 'got': list(b)})
                return res
            mods.append(b[1])
            check_unchanged('after-building module %d' % i)
            baseline[i] = table(i)
        # use every module (model comparison), most derived last, then first again (or the reverse order)
        order = list(range(len(specs))) + [0]
        if reverse:
            order = list(range(len(specs) - 1, -1, -1)) + [len(specs) - 1]
            tag += '/reverse-use'
        for mi in order:
            allowed = set(n for n, d in specs[mi].rules if not d[1])
            entries = [(None, mi)] + [(n, mi) for n in sorted(allowed)]
            sub = {'mods': None, 'inputs': INPUTS, 'entries': entries, 'mode': 'simple', 'tag': tag,
                   'time_limit': 0.3, '_kdescs': kdescs}
            r2 = {'ctr': {}, 'sets': {}, 'viol': [], 'viol_keys': []}

            def bump2(k, n=1):
                r2['ctr'][k] = r2['ctr'].get(k, 0) + n
            e1._run_cases(sub, specs, descs, mods, r2, bump2, 'simple', False, False, tag)
            for k, v in r2['ctr'].items():
                bump(k, v)
            res['viol_keys'].extend(r2['viol_keys'])
            for v in r2['viol']:
                if v['sig'] not in sigs:
                    sigs.add(v['sig'])
                    res['viol'].append(v)
            if res.get('sample') is None:
                res['sample'] = r2.get('sample')
            if any('DIVERGES' in s for s in sigs):
                break
            check_unchanged('after-using module %d' % mi)
        if not any('DIVERGES' in s for s in sigs):
            # the SAME text object parsed through the base, the most derived module and the base again: each outcome
            # equals the one obtained with a fresh text object
            for t in INPUTS[:70]:
                seqm = [0, len(mods) - 1, 0]
                freshes = [impl.run(mods[mi2].parse, e1.fresh(t), 0, True, time_limit=1.0, patient=True) for mi2 in seqm]
                # (the three parses of the one object follow each other directly)
                sames = [impl.run(mods[mi2].parse, t, 0, True, time_limit=1.0, patient=True) for mi2 in seqm]
                for mi2, same, fresh_ in zip(seqm, sames, freshes):
                    bump('cases')
                    if (same['kind'], same.get('value'), same.get('index')) != (fresh_['kind'], fresh_.get('value'), fresh_.get('index')):
                        case = {'descs': kdescs, 'what': 'same text object through module %d after another module' % mi2, 'text': t}
                        sig = '%s outcome-depends-on-text-object-seen-by-another-module' % tag
                        key = case_key(case)
                        res['viol_keys'].append((key, sig))
                        if sig not in sigs:
                            sigs.add(sig)
                            res['viol'].append({'sig': sig, 'key': key, 'case': case, 'expected': [fresh_['kind'], fresh_.get('value')],
                                                'got': [same['kind'], same.get('value')]})
        if len(specs) == 2 and not reverse and not any('DIVERGES' in s for s in sigs):
            # revision history: a revised base is compiled under the same name, then the SAME derived text is
            # compiled again: it must now behave as a derivation of the revised base
            rev = Spec([(n, (('rule', None, ('str', 'cb')) if n == 'X' else d)) for n, d in specs[0].rules],
                       ignores=list(specs[0].ignores) or [('re', '~+')], ignore_style=style)
            rev.ignore_prefix = 'IgA'
            rev.name, rev.parent_name = specs[0].name, None
            specs2 = [rev, specs[1]]
            descs2 = [render.spec(rev), descs[1]]
            mods2 = []
            for d in descs2:
                b = impl.build(d, time_limit=20.0)
                if b[0] != 'OK':
                    res['viol'].append({'sig': '%s COMPILE-after-revision %s' % (tag, b[1] if len(b) > 1 else b[0]),
                                        'case': {'descs': [x.replace(uid, 'U') for x in descs2], 'what': 'Grammar() after revision'},
                                        'expected': 'a module', 'got': list(b)})
                    break
                mods2.append(b[1])
            if len(mods2) == 2:
                allowed = set(n for n, d in specs2[1].rules if not d[1])
                sub = {'mods': None, 'inputs': INPUTS, 'entries': [(None, 1)] + [(n, 1) for n in sorted(allowed)], 'mode': 'simple',
                       'tag': tag + '/revised-base', 'time_limit': 0.3, '_kdescs': [x.replace(uid, 'U') for x in descs2]}
                r3 = {'ctr': {}, 'sets': {}, 'viol': [], 'viol_keys': []}

                def bump3(k, n=1):
                    r3['ctr'][k] = r3['ctr'].get(k, 0) + n
                e1._run_cases(sub, specs2, descs2, mods2, r3, bump3, 'simple', False, False, tag + '/revised-base')
                for k, v in r3['ctr'].items():
                    bump(k, v)
                res['viol_keys'].extend(r3['viol_keys'])
                res['viol'].extend(r3['viol'])
                # ... while the modules built before the revision keep their behaviour
                check_unchanged('after-revision of the base under the same name')
    finally:
        for n in names:
            impl.uninstall(n)
        sys.modules.pop(uid + '_pkg', None)
    return res


def run(tier, seed):
    chk = Check('C13', tier, seed)
    chk.rule = ('base A (start, X, class Y, template T; start refers to X and Y, Y to T, T to X; optionally start nested 16 block-nesting layers deep) and every derived grammar choosing for each of start/X/Y/T among inherit, '
                'override, override with super, override through a new rule; all 216 two-level chains x 4 ignore placements x named/anonymous '
                'x plain/dotted module names; three-level chains (quick: at most one rule per level departs from inherit, 3 ignore placements; '
                'thorough: all 20736 without ignore, the 3696 with <= 4 departures from inherit x 7 ignore placements); entries: parse of every module of the chain and every rule or class the module '
                'defines itself; 97 inputs over {a,b,c,space,~}; oracle: late-binding model; history: the outcome table of every ancestor is '
                're-checked after every later module is built and after every module is used; two-level chains are additionally built afresh and '
                'used in the opposite order, and followed by a revision history (a revised base compiled under the same name, the same derived '
                'text compiled again: must derive from the revised base; the earlier modules keep their behaviour); '
                'non-trivial = the model run needed a restore')
    chk.assumptions = ['reference interpreter (late binding, lexical super, skip set = union over the chain)',
                       'M.<R>.parse for a rule M merely inherits is not compared (it is the parent\'s own object)']
    chk.explore(run_job, chains(tier), chunk=2, job_deadline=300)
    return chk.finish(floor=1000)


def replay(rep):
    case = rep['case']
    if 'entry' not in case:
        for i, d in enumerate(case['descs']):
            b = impl.build(d)
            print('module', i, b[0], b[1] if b[0] != 'OK' else '')
            if b[0] != 'OK':
                return 1
        return 0
    return e1.replay_case(rep, 'simple')
