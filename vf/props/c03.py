"""C03 - bounded repetition and separated lists (DESIGN 3/C03)."""
import itertools

from .. import e1
from ..core import Check

A, B = ('str', 'a'), ('str', 'b')
ELEMS = [A, ('seq', A, B), ('choice', A, ('str', 'ab')), ('ref', 'El')]
SEPS = [('str', ','), ('seq', ('str', ','), ('str', ';')), ('choice', ('str', ','), ('str', ',;')),
        # separators that may match nothing (their value is then falsy: None / '')
        ('opt', ('str', ',')), ('re', ',?')]
DIGIT = ('apply', ('re', '\\d'), ('py', 'int'))
REST = ('re', '[ab,;0-9]*')
AUX = [('El', ('rule', None, ('seq', A, ('opt', B))))]


NULLABLE_EL = ('opt', A)


def static_reps(el, maxb):
    yield ('rep', el, None, None)
    for m in range(0, maxb + 1):
        for n in range(m, maxb + 1):
            yield ('rep', el, m, n)
            # a counted repetition of an element that may match nothing (terminates: the count is bounded)
            if el == A:
                yield ('rep', NULLABLE_EL, m, n)
        yield ('rep', el, m, None)
    for n in range(0, maxb + 1):
        yield ('rep', el, None, n)


def dynamic_reps(el):
    """data-dependent bounds: (core expr, extra rules, needs digit prefix count)"""
    forms = [('k', 'k'), ('k', None), (None, 'k'), (1, 'k')]
    for m, n in forms:
        rep = ('rep', el, m, n)
        # let-bound
        yield ('let', ('let', 'k', DIGIT, rep), [], 1)
        # template parameter
        yield ('param', ('let', 'n', DIGIT, ('call', 'T', [('ref', 'n')], [])),
               [('T', ('rule', ['k'], rep))], 1)
        # class field
        yield ('field', ('ref', 'K'),
               [('K', ('class', None, [('k', False, DIGIT), ('xs', False, rep)]))], 1)
        # the enclosing context lies INSIDE the binder (next to the repetition, in the same body)
        for cn, ctx in (('choice', ('choice', rep, ('str', 'ab'))), ('choice2', ('choice', rep, ('str', 'aab'), ('str', 'a'))),
                        ('star', ('seq', ('star', ('seq', rep, ('str', ';'))), ('re', '[ab;]*'))),
                        ('opt', ('seq', ('opt', rep), ('re', '[ab]*')))):
            yield ('let-inner-' + cn, ('let', 'k', DIGIT, ctx), [], 1)
            yield ('param-inner-' + cn, ('let', 'n', DIGIT, ('call', 'T', [('ref', 'n')], [])), [('T', ('rule', ['k'], ctx))], 1)
            yield ('pyarg-inner-' + cn, ('call', 'T', [('py', '2')], []), [('T', ('rule', ['k'], ctx))], 0)
    rep = ('rep', el, 'j', 'k')
    yield ('let2', ('let', 'j', DIGIT, ('let', 'k', DIGIT, rep)), [], 2)
    # bound given as inline Python over a bound name (also expressions of low precedence)
    yield ('letpy', ('let', 'k', DIGIT, ('rep', el, ('py', 'k'), ('py', 'k + 1'))), [], 1)
    yield ('letpy', ('let', 'k', DIGIT, ('rep', el, ('py', 'k or 1'), ('py', 'k or 1'))), [], 1)
    yield ('letpy', ('let', 'k', DIGIT, ('rep', el, None, ('py', 'k if k < 2 else 1'))), [], 1)
    yield ('letpy', ('let', 'k', DIGIT, ('rep', el, ('py', 'k and 1'), ('py', '3 if k else 1'))), [], 1)
    yield ('letpy', ('let', 'k', DIGIT, ('rep', el, ('py', 'k or 1'), None)), [], 1)


def seps(el):
    for sp in SEPS:
        for disc, trail, empty, req in itertools.product([True, False], repeat=4):
            if req and not trail:
                continue
            yield ('sep', el, sp, disc, trail, empty, req)


BIG = [(2, 10), (9, 10), (3, 12), (10, 10), (10, None), (None, 10), (11, 12), (0, 10), (1, 100)]
BIG_INPUTS = ['a' * k for k in range(0, 14)] + ['a' * k + 'b' for k in range(0, 14)] + ['a' * 101]


def big_bound_jobs():
    """bounds of more than one digit (operator and constructor spelling), on runs of 0..13 (and 101) elements"""
    for m, n in BIG:
        core = ('rep', A, m, n)
        for cn, ctx in (('bare', core), ('choice', ('choice', core, ('re', 'a*b'))), ('seq', ('seq', core, ('opt', B)))):
            for alt in (None, (True,) * 4):
                rules = [('start', ('rule', None, ctx))] + AUX
                mods = [(tuple(rules), (), 'start', None, (), False, 'named', None)]
                yield {'mods': mods, 'inputs': BIG_INPUTS, 'mode': 'simple', 'tag': 'rep-big', 'alt': alt}


def contexts(x):
    yield 'bare', x
    yield 'choice1', ('choice', x, ('str', 'ab'))
    yield 'choice2', ('choice', x, ('str', 'a,;'))
    yield 'seq', ('seq', x, B)
    yield 'opt', ('right', ('opt', x), REST)
    yield 'expect', ('right', ('expect', x), REST)
    yield 'expectnot', ('right', ('expectnot', x), REST)
    yield 'star', ('star', ('seq', x, ('str', ';')))
    # directly as a lookahead alternative / repetition element (a failed lookahead leaves no trace either)
    yield 'expect-choice', ('choice', ('expect', x), ('str', 'ab'), ('str', 'a,'))
    yield 'expect-star', ('seq', ('star', ('seq', ('expect', x), ('re', '[ab]'))), REST)


def universe(tier):
    maxb = 3
    inp = 'ab,;:5' if tier == 'quick' else 'ab,;:6'
    elems = ELEMS
    for el in elems:
        for core in static_reps(el, maxb):
            for cn, ctx in contexts(core):
                yield ('rep/' + cn, ctx, [], inp, None)
            # constructor spelling of the same bounds
            yield ('rep/ctor', core, [], inp, (True,) * 8)
        for core in seps(el):
            for cn, ctx in contexts(core):
                yield ('sep/' + cn, ctx, [], inp, None)
        for src, core, extra, ndig in dynamic_reps(el):
            dinp = ('D%d:%s' % (ndig, '4' if tier == 'quick' else '5')) if ndig else inp
            for cn, ctx in contexts(core):
                if cn in ('star', 'expect-star'):
                    continue
                yield ('dyn-%s/%s' % (src, cn), ctx, extra, dinp, None)


def digit_inputs(name):
    nd, _, n = name[1:].partition(':')
    base = e1.strings('ab,;', int(n))
    ds = [''.join(t) for t in itertools.product('0123', repeat=int(nd))]
    return [d + t for d in ds for t in base] + base[:30]


def jobs(tier):
    yield from big_bound_jobs()
    for tag, e, extra, inp, alt in universe(tier):
        rules = [('start', ('rule', None, e))] + AUX + list(extra)
        mods = [(tuple(rules), (), 'start', None, (), False, 'named', None)]
        if inp.startswith('D'):
            if inp not in e1.INPUT_SETS:
                e1.INPUT_SETS[inp] = digit_inputs(inp)
        yield {'mods': mods, 'inputs': inp, 'mode': 'simple', 'tag': tag.split('/')[0], 'alt': alt}


def init():
    for nd in (1, 2):
        for n in (4, 5):
            name = 'D%d:%d' % (nd, n)
            e1.INPUT_SETS[name] = digit_inputs(name)


def run(tier, seed):
    chk = Check('C03', tier, seed)
    chk.rule = ('4 element kinds x {all static bounds 0<=m<=n<=3 and 9 multi-digit bound pairs in operator and constructor spelling, '
                'data-dependent bounds from let / template parameter / class field / inline Python, '
                'all 12 Sep option vectors x 5 separators (two of them nullable)} x 10 enclosing contexts x all inputs over '
                '{a,b,",",";"} up to the length bound (digit prefixes 0..3 for data-dependent bounds); '
                'non-trivial = the model run needed a restore (bound reached with input left, trailing '
                'separator left unconsumed, list failed after consuming)')
    chk.assumptions = ['reference interpreter vf/model.py', 'CPython re']
    chk.explore(e1.run_job, jobs(tier), init=init, chunk=8)
    return chk.finish(floor=1000)


def replay(case):
    return e1.replay_case(case, 'simple')
