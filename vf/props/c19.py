"""C19 - alternative spellings of the grammar language are interchangeable (DESIGN 3/C19)."""
import itertools

from .. import e1, render
from ..core import Check
from ..model import Spec
from . import c01, c03

ALTK = render.ALT_KINDS


def count_alt(e):
    n = 1 if e[0] in ALTK and not (e[0] == 'sep' and not (e[3] and e[5] and not e[6])) else 0
    if e[0] == 'sep':
        # Sep in non-sugar form has only the constructor spelling
        n = 1 if (e[3] and e[5] and not e[6]) else 0
    for x in e[1:]:
        if isinstance(x, tuple) and x and isinstance(x[0], str):
            n += count_alt(x)
    return n


def form_jobs(tier):
    aux = c01.AUXD
    # (a1) <=1 operator over all leaves, (a2) <=2 operators over 5 leaves: every combination of spellings
    universe = []
    for n in range(0, 2):
        universe += [e for e in c01.gen(n, c01.LEAVES) if c01.wellformed(e, aux)]
    universe += [e for e in c01.gen(2, c01.SMALL_LEAVES) if c01.wellformed(e, aux)]
    universe += [e for e in c01.nary(c01.SMALL_LEAVES) if c01.wellformed(e, aux)]
    if tier == 'thorough':
        universe += [e for e in c01.gen(2, c01.LEAVES) if c01.wellformed(e, aux)]
    for e in universe:
        k = count_alt(e)
        if k == 0:
            continue
        rules = [('start', ('rule', None, e))] + c01.AUX
        mods = [(tuple(rules), (), 'start', None, (), False, 'named', None)]
        for bits in itertools.product((False, True), repeat=k):
            if not any(bits):
                continue      # the all-operator spelling is C01's universe
            yield {'mods': mods, 'inputs': 'abA:4', 'mode': 'simple', 'tag': 'forms', 'alt': bits}
    # (a3') multi-digit bounds
    for j in c03.big_bound_jobs():
        j['tag'] = 'forms-rep-big'          # both spellings: e{m,n} and List(e, min_len=m, max_len=n)
        yield j
    # (a3) repetition bounds and separated lists
    for el in c03.ELEMS[:3]:
        for core in c03.static_reps(el, 3):
            for cn, ctx in (('bare', core), ('choice', ('choice', core, ('str', 'ab'))), ('seq', ('seq', core, ('str', 'b')))):
                k = count_alt(ctx)
                rules = [('start', ('rule', None, ctx))] + c03.AUX
                mods = [(tuple(rules), (), 'start', None, (), False, 'named', None)]
                for bits in itertools.product((False, True), repeat=k):
                    if any(bits):
                        yield {'mods': mods, 'inputs': 'ab,;:4', 'mode': 'simple', 'tag': 'forms-rep', 'alt': bits}
        for sp in c03.SEPS:
            for trail in (False, True):
                core = ('sep', el, sp, True, trail, True, False)
                for cn, ctx in (('bare', core), ('choice', ('choice', core, ('str', 'a,b'))), ('seq', ('seq', core, ('str', ';')))):
                    k = count_alt(ctx)
                    rules = [('start', ('rule', None, ctx))] + c03.AUX
                    mods = [(tuple(rules), (), 'start', None, (), False, 'named', None)]
                    for bits in itertools.product((False, True), repeat=k):
                        if any(bits):
                            yield {'mods': mods, 'inputs': 'ab,;:4', 'mode': 'simple', 'tag': 'forms-sep', 'alt': bits}


# --- (b) layout ------------------------------------------------------------------------------------
def layout_specs():
    """a fixed set of multi-rule grammars taken from the other universes"""
    from . import c02, c04, c05, c06, c10
    out = []
    for mod, every, inp in ((c04, 97, 'ab\\s#:4'), (c05, 1511, 'ab02;:3'), (c06, 61, 'abc:3'), (c10, 7, 'ab\\s\\n:4'), (c02, 401, '1+-():4')):
        k = 0
        for j in mod.jobs('quick'):
            k += 1
            if k % every:
                continue
            if j.get('descs') or j['mods'][0][5]:
                continue
            out.append((j['mods'], inp))
    return out[:60]


LAYOUTS = list(itertools.product(('=', ':', '=>'), ('\n', ';'), (False, True), (False, True), (None, 'before', 'after'),
                                 (False, True), ('ignore', 'ignored')))


BARE_BEFORE = ['', '\n', '  ', '# c\n', '\n\n  # c\n\n']
BARE_AFTER = ['', '\n', ';', ';\n', ' ;', ' ; ', '\n\n', ' # c', ' # c\n', '\n# c\n', ';;\n', '\n;\n', ';\n;', '\n  ', '\r\n']
BARE_CHILDREN = [('inherits', (('Other', ('rule', None, ('str', 'A'))),)),
                 ('wraps', (('start', ('rule', None, ('right', ('str', '['), ('left', ('super', 'start'), ('str', ']'))))),)),
                 ('uses', (('Other', ('rule', None, ('seq', ('ref', 'start'), ('str', 'A')))),))]


def layout_jobs(tier):
    for mods, inp in layout_specs():
        has_ign = bool(mods[0][1])
        for eq, sep, comments, blank, opbreak, parens, ikw in LAYOUTS:
            if not has_ign and ikw == 'ignored':
                continue
            layout = dict(eq=eq, sep=sep, comments=comments, blank=blank, opbreak=opbreak, parens=parens,
                          ignore_kw=ikw if has_ign else None)
            yield {'mods': mods, 'inputs': inp, 'mode': 'simple', 'tag': 'layout', 'layout': layout}
    # bare expression versus start = expr
    aux = {}
    for n in range(0, 3):
        for e in c01.gen(n, [('str', 'a'), ('str', 'ab'), ('re', 'b?'), ('back', 1)]):
            if c01.wellformed(e, aux):
                mods = [((('start', ('rule', None, e)),), (), 'start', None, (), False, 'named', None)]
                for opbreak in (None, 'before', 'after'):
                    yield {'mods': mods, 'inputs': 'abA:4', 'mode': 'simple', 'tag': 'bare-expression',
                           'layout': dict(bare=True, opbreak=opbreak, parens=(opbreak == 'after'))}
                if n <= 1:
                    # what may surround the expression: everything that may surround the statements of a grammar
                    for before in BARE_BEFORE:
                        for after in BARE_AFTER:
                            yield {'mods': mods, 'inputs': 'abA:3', 'mode': 'simple', 'tag': 'bare-expression',
                                   'layout': dict(bare=(before, after))}
    # ... also for a named grammar that others extend: a child of `grammar P <expr>` behaves like a child of
    # `grammar P start = <expr>`
    for e in c01.gen(1, [('str', 'a'), ('str', 'ab'), ('re', 'b?')]):
        if not c01.wellformed(e, aux):
            continue
        parent = ((('start', ('rule', None, e)),), (), 'start', None, (), False, 'named', None)
        for cn, crules in BARE_CHILDREN:
            child = (crules, (), 'start', None, (), False, 'named', None)
            for pbare in (True, ('', ''), ('\n', ';\n')):
                yield {'mods': [parent, child], 'named': True, 'inputs': 'abA[]:4', 'mode': 'simple', 'tag': 'bare-expression-parent',
                       'entries': [('start', None), ('start', 0)] + ([('Other', None)] if cn != 'wraps' else []),
                       'layouts': [dict(bare=pbare), {}]}


def layout_descriptions(tier):
    """the rendered layout variants (also used as corpus by C12)"""
    k = 0
    for j in layout_jobs(tier):
        k += 1
        if tier == 'quick' and k % 5:
            continue
        specs = e1.mk_specs(j['mods'])
        if 'layouts' in j:
            continue            # (chains: their names are assigned at run time)
        yield render.spec(specs[0], None, **j['layout'])


# --- (c) grouping of unparenthesised operators ---------------------------------------------------
PREC = {'//': 1, '/?': 1, '<<': 2, '>>': 2, '<|': 3, '|>': 3, 'where': 3, '|': 4}
MENU = [('str', 'a'), ('re', '[ab]'), ('py', 'lambda v: [v]'), ('py', "lambda v: v == 'a'")]


def binop(op, l, r):
    if op == '//':
        return ('sep', l, r, True, False, True, False)
    if op == '/?':
        return ('sep', l, r, True, True, True, False)
    if op == '<<':
        return ('left', l, r)
    if op == '>>':
        return ('right', l, r)
    if op == '<|':
        return ('applyl', l, r)
    if op == '|>':
        return ('apply', l, r)
    if op == 'where':
        return ('where', l, r)
    if op == '|':
        return ('choice', l, r)
    raise Exception(op)


def atom(e):
    return render.expr(e)


def grouping_jobs(tier):
    for op1, op2 in itertools.product(PREC, repeat=2):
        for x, y, z in itertools.product(MENU, repeat=3):
            text = '%s %s %s %s %s' % (atom(x), op1, atom(y), op2, atom(z))
            if PREC[op1] <= PREC[op2]:
                expected = binop(op2, binop(op1, x, y), z)
                other = binop(op1, x, binop(op2, y, z))
            else:
                expected = binop(op1, x, binop(op2, y, z))
                other = binop(op2, binop(op1, x, y), z)
            if expected[0] == 'choice' and expected[1][0] == 'choice':
                expected = ('choice',) + expected[1][1:] + (expected[2],)
            mods = [((('start', ('rule', None, expected)),), (), 'start', None, (), False, 'named', None)]
            yield {'mods': mods, 'inputs': 'ab,:3', 'mode': 'simple', 'tag': 'grouping', 'pyraise': True,
                   'descs': ['start = %s\n' % text]}
            # non-vacuity: is the other grouping observably different?  (decided on the model: both ASTs on every input)
            yield {'mods': mods, 'inputs': 'ab,:3', 'tag': 'OTHER-GROUPING', 'probe_only': True,
                   'other': ((('start', ('rule', None, other)),), (), 'start', None, (), False, 'named', None)}
    # postfix forms bind tighter than every binary operator; the operator table is the loosest postfix
    posts = [('?', lambda e: ('opt', e)), ('*', lambda e: ('star', e)), ('+', lambda e: ('plus', e)),
             ('{2}', lambda e: ('rep', e, 2, 2)), ('{1,}', lambda e: ('rep', e, 1, None))]
    for op in PREC:
        for x, y in itertools.product(MENU[:2] + [MENU[2 if op in ('|>', '<|') else 3]], repeat=2):
            for sym, mk in posts:
                for side in ('right', 'left'):
                    if side == 'right':
                        text = '%s %s %s%s' % (atom(x), op, atom(y), sym)
                        expected = binop(op, x, mk(y))
                    else:
                        text = '%s%s %s %s' % (atom(x), sym, op, atom(y))
                        expected = binop(op, mk(x), y)
                    mods = [((('start', ('rule', None, expected)),), (), 'start', None, (), False, 'named', None)]
                    yield {'mods': mods, 'inputs': 'ab,:4', 'mode': 'simple', 'tag': 'grouping-postfix', 'pyraise': True,
                           'descs': ['start = %s\n' % text]}
            table = (('left', (('str', ','),)),)
            text = '%s %s %s between {\n    left: ","\n}' % (atom(x), op, atom(y))
            expected = ('optable', binop(op, x, y), table)
            mods = [((('start', ('rule', None, expected)),), (), 'start', None, (), False, 'named', None)]
            yield {'mods': mods, 'inputs': 'ab,:4', 'mode': 'simple', 'tag': 'grouping-table', 'pyraise': True,
                   'descs': ['start = %s\n' % text]}


def run_job(job):
    if job.get('probe_only'):
        # the other grouping is not an oracle: only count on how many inputs the two groupings differ observably
        from ..model import Model, IllFormed, plain
        a, b = e1.mk_specs(job['mods']), e1.mk_specs([job['other']])
        n = d = 0
        for t in e1.input_set(job['inputs']):
            try:
                ra = Model(a).parse('start', t)
                rb = Model(b).parse('start', t)
            except Exception:
                continue
            n += 1
            ca = None if ra is None else (plain(ra[0]), ra[1])
            cb = None if rb is None else (plain(rb[0]), rb[1])
            if ca != cb:
                d += 1
        return {'ctr': {'other_grouping_differs': d, 'other_grouping_cases': n}, 'sets': {}, 'viol': [], 'viol_keys': []}
    return e1.run_job(job)


def jobs(tier):
    yield from grouping_jobs(tier)
    yield from layout_jobs(tier)
    yield from form_jobs(tier)


def run(tier, seed):
    chk = Check('C19', tier, seed)
    chk.rule = ('(a) every expression with <=1 operator over 11 leaves and <=2 operators over 5 leaves (thorough: 11), the n-ary forms, all '
                'static repetition bounds and separated lists, rendered in EVERY combination of operator / constructor spellings per node; '
                '(b) 60 multi-rule grammars x all 288 combinations of {= : =>} x {newline ;} x comments x blank lines x line break '
                'before/after binary operators x redundant parentheses x ignore/ignored, and bare expression vs start = expr (5 texts before x 15 texts after the expression: newlines, `;`, comments, blanks; also as a named grammar that a child extends: inherits / wraps super.start / uses start); '
                '(c) a op1 b op2 c for every ordered pair of the 8 binary operators x every typed operand triple, and every postfix form and '
                'the operator table against every binary operator, against the grouping stated in grammar.txt (the number of inputs on which the '
                'opposite grouping would be observably different is reported); oracle: reference model of the AST; '
                'non-trivial = the model run needed a restore')
    chk.assumptions = ['reference interpreter', 'constructor forms are not applied to bare inline-Python operands (excepted by the statement)']
    chk.explore(run_job, jobs(tier), chunk=8)
    chk.notes['other_grouping_observably_different_cases'] = chk.ctr.get('other_grouping_differs', 0)
    return chk.finish(floor=1000)


def replay(case):
    return e1.replay_case(case, 'simple')
