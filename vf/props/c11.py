"""C11 - behaviour does not depend on how the grammar module was produced (DESIGN 3/C11)."""
import json
import os
import shutil
import subprocess
import sys
import tempfile

from .. import e1, impl, render
from ..core import Check, case_key, jsonable

ISOLATED = r'''
import importlib.util, json, sys, os
work = sys.argv[1]
sys.path.insert(0, work)
spec = json.load(open(os.path.join(work, 'work.json')))
before = set(sys.modules)

def is_obj(v):
    t = type(v)
    return hasattr(t, '_fields') and hasattr(v, '_metadata') and hasattr(v, '_asdict')

def canon(v):
    if v is None: return None
    if isinstance(v, bool): return ['B', v]
    if isinstance(v, str): return str(v)
    if isinstance(v, bytes): return {'bytes': bytes(v).decode('latin-1')}
    if isinstance(v, int): return int(v)
    if isinstance(v, float): return v
    if isinstance(v, list): return ['L'] + [canon(x) for x in v]
    if is_obj(v): return ['O', type(v).__name__, [[f, canon(getattr(v, f))] for f in v._fields]]
    if isinstance(v, tuple): return ['T'] + [canon(x) for x in v]
    if isinstance(v, dict): return ['D'] + [[canon(k), canon(x)] for k, x in v.items()]
    if callable(v): return ['FN']
    return ['?', type(v).__name__]

out = []
for item in spec:
    res = {'id': item['id']}
    try:
        mods = []
        for name in item['modules']:
            mods.append(importlib.import_module(name))
        g = mods[-1]
        table = []
        for text in item['inputs']:
            if item['bytes']:
                text = text.encode('latin-1')
            for ent in item['entries']:
                try:
                    if isinstance(ent, list):
                        parse = getattr(g, ent[0]).parse(*ent[1])       # parameterised class: Cls.parse(args)(text)
                    else:
                        parse = g.parse if ent is None else getattr(g, ent).parse
                    v = parse(text)
                    table.append(['RET', canon(v), None])
                except Exception as x:
                    n = type(x).__name__
                    if n == 'PartialParseError':
                        table.append(['PARTIAL', canon(x.partial_result), x.last_position.index])
                    elif n == 'ParseError':
                        table.append(['ERROR', None, x.position.index])
                    else:
                        table.append(['EXC', n, None])
        res['table'] = table
    except Exception as x:
        res['error'] = '%s: %s' % (type(x).__name__, str(x)[:200])
    out.append(res)
# everything imported must come from the standard library or from the work directory
foreign = []
stdlib = os.path.dirname(os.__file__)
for name, m in list(sys.modules.items()):
    if name in before or m is None:
        continue
    f = getattr(m, '__file__', None)
    if f is None:
        continue
    f = os.path.realpath(f)
    if not (f.startswith(os.path.realpath(stdlib)) or f.startswith(os.path.realpath(work))):
        foreign.append([name, f])
json.dump({'results': out, 'foreign': foreign, 'path': sys.path}, sys.stdout)
'''


def source_jobs(tier):
    """descriptions of the quick universes of the other checks: (tag, e1-job)"""
    from . import c01, c02, c03, c04, c05, c06, c17
    plan = [(c01, 'C01', 9 if tier == 'quick' else 1, 1500), (c02, 'C02', 3 if tier == 'quick' else 1, 700),
            (c03, 'C03', 5 if tier == 'quick' else 1, 700), (c04, 'C04', 3 if tier == 'quick' else 1, 400),
            (c05, 'C05', 23 if tier == 'quick' else 5, 800), (c06, 'C06', 2 if tier == 'quick' else 1, 900),
            (c17, 'C17', 31 if tier == 'quick' else 7, 200)]
    for mod, tag, every, cap in plan:
        k = n = 0
        for j in mod.jobs('quick'):
            if isinstance(j, tuple) or j.get('descs') or j.get('named'):
                continue
            k += 1
            if k % every:
                continue
            n += 1
            if n > cap * (1 if tier == 'quick' else 4):
                break
            yield tag, j


def entry_point_jobs():
    """parameterised classes used as entry points: Cls.parse(args)(text)"""
    W = ('W', ('rule', None, ('re', '[ab]+')))
    tg = ('Tg', ('class', ['n'], [('t', False, ('py', 'repr(n)')), ('w', False, ('ref', 'W'))]))
    cv = ('Cv', ('class', ['nq', 'tg'], [('nw', False, ('py', '(nq, tg)')), ('more', False, ('rep', ('re', '[ab]'), 'nq', 'nq'))]))
    kp = ('Kp', ('class', ['p'], [('x', False, ('ref', 'p')), ('y', False, ('opt', ('ref', 'W')))]))
    for ign in ((), (('re', ' +'),)):
        for style in (('named', 'anon') if ign else ('named',)):
            rules = (('start', ('rule', None, ('star', ('ref', 'W')))), W, tg, cv)
            yield 'entry', {'mods': [(rules, ign, 'start', None, (), False, style, None)], 'inputs': 'ab\\s:3',
                            'arg_entries': [['Tg', [1]], ['Tg', [True]], ['Tg', [None]], ['Tg', [[1, 'x']]], ['Cv', [2, 'x']], ['Cv', [0, None]], ['Cv', [1, 1.0]]]}


def chain_jobs(tier):
    from . import c13
    k = 0
    for levels, ig, style, dotted in c13.chains("quick"):
        k += 1
        if dotted or k % (7 if tier == 'quick' else 2):
            continue
        yield 'C13', ('chain', levels, ig, style)


def table_for(g, inputs, entries, bytes_mode):
    out = []
    for text in inputs:
        t = text.encode('latin-1') if bytes_mode else text
        for ent in entries:
            try:
                if isinstance(ent, list):
                    parse = impl.entry(g, ent[0])(*ent[1])
                else:
                    parse = impl.entry(g, ent)
            except AttributeError:
                out.append(['EXC', 'AttributeError', None])
                continue
            except Exception as x:
                out.append(['EXC', type(x).__name__, None])
                continue
            o = impl.run(parse, e1.fresh(t), 0, True, time_limit=1.0, patient=True)
            if o['kind'] == 'RET':
                out.append(['RET', jsonable(o['value']), None])
            elif o['kind'] == 'PARTIAL':
                out.append(['PARTIAL', jsonable(o['value']), o['index']])
            elif o['kind'] == 'ERROR':
                out.append(['ERROR', None, o['index']])
            elif o['kind'] == 'EXC':
                out.append(['EXC', o['type'], None])
            else:
                out.append(['DIVERGES', None, None])
    return out


def norm(x):
    return json.loads(json.dumps(x))


def run_chunk(chunk):
    res = {'ctr': {'cases': 0, 'nontrivial': 0, 'states': 0, 'transitions': 0}, 'sets': {'outcome_kinds': set()},
           'viol': [], 'viol_keys': []}
    sigs = set()
    work = tempfile.mkdtemp(prefix='vf_c11_')
    items = []
    expect = {}
    regen = []

    def viol(tag, why, desc, extra=None):
        sig = '%s %s' % (tag, why)
        case = {'descs': [desc] if isinstance(desc, str) else desc, 'what': why}
        key = case_key(case)
        res['viol_keys'].append((key, sig))
        if sig not in sigs:
            sigs.add(sig)
            res['viol'].append({'sig': sig, 'key': key, 'case': case, 'expected': 'all variants agree', 'got': extra})

    try:
        for idx, (tag, j) in enumerate(chunk):
            uid = e1.unique_name('c11')
            if isinstance(j, tuple) and j[0] == 'chain':
                from . import c13
                _, levels, ig, style = j
                specs = c13.build_specs(levels, ig, style)
                inputs = c13.INPUTS[:60]
                bytes_mode = False
                entries = [None]
                prev = None
                names = []
                for i, sp in enumerate(specs):
                    sp.name = '%s_m%d' % (uid, i)
                    sp.parent_name = prev
                    prev = sp.name
                    names.append(sp.name)
                descs = [render.spec(sp) for sp in specs]
                mods = []
                ok = True
                for d in descs:
                    b = impl.build(d, include_source=True)
                    if b[0] != 'OK':
                        viol(tag, 'COMPILE chain', descs, list(b))
                        ok = False
                        break
                    mods.append(b[1])
                if not ok:
                    continue
                base = table_for(mods[-1], inputs, entries, False)
                for n, m in zip(names, mods):
                    with open(os.path.join(work, n + '.py'), 'w') as f:
                        f.write(m._source_code)
                items.append({'id': idx * 10 + 5, 'modules': names, 'inputs': inputs, 'entries': entries, 'bytes': False})
                expect[idx * 10 + 5] = (tag, descs, base)
                res['ctr']['states'] += 2
                for n in names:
                    impl.uninstall(n)
                # mixed variant: the base grammar is its emitted source executed as a module of that name; the derived
                # grammars are then compiled (in memory) against that parent
                import types
                pm = types.ModuleType(names[0])
                try:
                    exec(compile(mods[0]._source_code, names[0] + '.py', 'exec'), pm.__dict__)
                    sys.modules[names[0]] = pm
                    last = pm
                    for d in descs[1:]:
                        b = impl.build(d, include_source=True)
                        if b[0] != 'OK':
                            viol(tag, 'COMPILE against a parent made from its emitted source', descs, list(b))
                            last = None
                            break
                        last = b[1]
                    if last is not None:
                        tb = table_for(last, inputs, entries, False)
                        res['ctr']['cases'] += len(tb)
                        res['ctr']['states'] += 1
                        if tb != base:
                            k = next(i for i in range(len(base)) if tb[i] != base[i])
                            viol(tag, 'differs with a parent made from its emitted source', descs,
                                 {'input': inputs[k], 'in_memory': base[k], 'mixed': tb[k]})
                except Exception as x:
                    viol(tag, 'emitted parent source does not execute', descs, '%s: %s' % (type(x).__name__, x))
                finally:
                    for n in names:
                        impl.uninstall(n)
                continue
            specs = e1.mk_specs(j['mods'])
            sp = specs[0]
            bytes_mode = sp.bytes_mode
            alt = j.get('alt')
            altf = (lambda kind, i: alt[i] if i < len(alt) else False) if alt else None
            inputs = j['inputs']
            if isinstance(inputs, str):
                inputs = e1.input_set(inputs)
            inputs = [t for t in inputs if isinstance(t, str)]
            # keep the inputs on which the description is well-formed (the model decides; ill-formed cases
            # -- repetition without progress etc. -- may not terminate and are outside the properties)
            from ..model import Model, IllFormed
            mdl = Model(specs)
            good = []
            for t in inputs:
                try:
                    mdl.parse(sp.start, t.encode('latin-1') if bytes_mode else t)
                    good.append(t)
                except (IllFormed, RecursionError):
                    res['ctr']['skipped_illformed'] = res['ctr'].get('skipped_illformed', 0) + 1
                except Exception:
                    res['ctr']['skipped_inline_python_raises'] = res['ctr'].get('skipped_inline_python_raises', 0) + 1
                if len(good) >= 150:
                    break
            inputs = good
            if not inputs:
                continue
            entries = [None] + [n for n, d in sp.rules if not d[1] and n != sp.start][:1] + [list(e) for e in j.get('arg_entries', ())]
            desc = render.spec(sp, altf)
            sp.name = uid
            ndesc = render.spec(sp, altf)
            sp.name = None
            variants = [('unnamed', desc, False), ('named', ndesc, False), ('unnamed+source', desc, True),
                        ('named+source', ndesc, True), ('unnamed again', desc, False), ('named+source again', ndesc, True)]
            tables = []
            sources = {}
            failed = False
            for vn, d, inc in variants:
                b = impl.build(d, include_source=inc)
                if b[0] != 'OK':
                    viol(tag, 'COMPILE %s' % vn, d, list(b))
                    failed = True
                    break
                g = b[1]
                tables.append((vn, table_for(g, inputs, entries, bytes_mode)))
                if inc:
                    sources.setdefault(vn.replace(' again', ''), []).append(g._source_code)
                elif hasattr(g, '_source_code'):
                    viol(tag, '_source_code present without include_source', d)
                res['ctr']['states'] += 1
            impl.uninstall(uid)
            if failed:
                continue
            base = tables[0][1]
            for o in base:
                res['sets']['outcome_kinds'].add(o[0])
            res['ctr']['cases'] += len(base) * len(tables)
            res['ctr']['transitions'] += len(tables)
            if any(o[0] in ('ERROR', 'PARTIAL') for o in base):
                res['ctr']['nontrivial'] += len(base)
            for vn, tb in tables[1:]:
                if tb != base:
                    k = next(i for i in range(len(base)) if tb[i] != base[i])
                    viol(tag, 'variant-differs: %s' % vn, desc,
                         {'input': inputs[k // len(entries)], 'entry': entries[k % len(entries)], 'unnamed': base[k], vn: tb[k]})
            for vn, srcs in sources.items():
                if len(srcs) == 2 and srcs[0] != srcs[1]:
                    viol(tag, 'source-not-reproducible: %s' % vn, desc)
            regen.append((tag, desc, sources['unnamed+source'][0]))
            # the emitted source, executed on its own
            for vn in ('unnamed+source', 'named+source'):
                name = uid + ('_n' if vn.startswith('named') else '_u')
                with open(os.path.join(work, name + '.py'), 'w') as f:
                    f.write(sources[vn][0])
                iid = idx * 10 + (1 if vn.startswith('named') else 0)
                items.append({'id': iid, 'modules': [name], 'inputs': inputs, 'entries': entries, 'bytes': bytes_mode})
                expect[iid] = (tag, desc, base)
            if res.get('sample') is None:
                res['sample'] = {'description': desc, 'variants': [v[0] for v in variants] + ['emitted source in python -I -S (x2)'],
                                 'inputs': len(inputs), 'entries': entries}
        # the generated text must not depend on the interpreter's hash seed: regenerate the chunk's (unnamed)
        # descriptions in a fresh interpreter with another PYTHONHASHSEED and compare the source text
        if regen:
            import hashlib
            hs = impl.source_hashes_in_fresh_interpreter([d for _, d, _ in regen], 1 + (len(regen) % 3))
            for (tag, d, src), h in zip(regen, hs):
                res['ctr']['cases'] += 1
                if h != hashlib.sha1(src.encode()).hexdigest():
                    viol(tag, 'source-differs-in-a-fresh-interpreter-with-another-hash-seed', d, h)
        # one isolated interpreter for the whole chunk: standard library only
        if items:
            with open(os.path.join(work, 'work.json'), 'w') as f:
                json.dump(items, f)
            with open(os.path.join(work, 'isolated.py'), 'w') as f:
                f.write(ISOLATED)
            env = {'PATH': os.environ.get('PATH', ''), 'PYTHONHASHSEED': '0'}
            p = subprocess.run([sys.executable, '-I', '-S', os.path.join(work, 'isolated.py'), work],
                               capture_output=True, text=True, timeout=600, env=env)
            if p.returncode != 0:
                viol('standalone', 'isolated interpreter failed', 'chunk', p.stderr[-400:])
            else:
                data = json.loads(p.stdout)
                if data['foreign']:
                    viol('standalone', 'imports outside the standard library', 'chunk', data['foreign'][:3])
                for r in data['results']:
                    tag, desc, base = expect[r['id']]
                    res['ctr']['states'] += 1
                    res['ctr']['transitions'] += 1
                    if 'error' in r:
                        viol(tag, 'standalone-import-failed', desc, r['error'])
                        continue
                    tb = r['table']
                    res['ctr']['cases'] += len(tb)
                    b2 = norm(base)
                    if tb != b2:
                        k = next((i for i in range(min(len(tb), len(b2))) if tb[i] != b2[i]), 0)
                        viol(tag, 'standalone-differs', desc, {'in_memory': b2[k], 'standalone': tb[k]})
    finally:
        shutil.rmtree(work, ignore_errors=True)
    return res


def chunks(it, n):
    buf = []
    for x in it:
        buf.append(x)
        if len(buf) >= n:
            yield buf
            buf = []
    if buf:
        yield buf


def all_jobs(tier):
    def gen():
        yield from entry_point_jobs()
        yield from chain_jobs(tier)
        yield from source_jobs(tier)
    return chunks(gen(), 12)


def run(tier, seed):
    chk = Check('C11', tier, seed)
    chk.rule = ('descriptions taken from the universes of C01-C06 and C17 (every k-th job, ~3000 quick) and C13 chains x production variants '
                '{unnamed, grammar <name> header} x {include_source off, on} x compiled twice x {in-memory module, emitted _source_code '
                'saved and imported by a separate `python -I -S` interpreter that has only the standard library and the work directory}; chains also with the base grammar replaced by its executed emitted source and the derived grammars compiled against it; '
                'x up to 150 well-formed inputs x 2 entry points (a dedicated family adds parameterised classes as entry points, Cls.parse(args)(text), with 7 argument lists); oracle: all variants give identical outcomes incl. the ParseError index, '
                'repeated compilation gives identical source text (also in a fresh interpreter with another PYTHONHASHSEED), the isolated interpreter imports nothing outside the standard library; '
                'non-trivial = descriptions with at least one failing input')
    chk.assumptions = ['the isolated interpreter is the same CPython binary started with -I -S']
    chk.explore(run_chunk, all_jobs(tier), chunk=1, job_deadline=900)
    return chk.finish(floor=1000)


def replay(rep):
    case = rep['case']
    print('re-run ./check C11 quick; description:')
    for d in case['descs']:
        print(d)
    return 1
