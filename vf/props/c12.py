"""C12 - the shipped grammar-description parser is a fixed point of the generator (DESIGN 3/C12)."""
import ast
import glob
import os
import re
import sys
import types

from .. import e1, impl, render
from ..core import Check, case_key
from ..model import Spec

REPO = impl.REPO


def grammar_txt():
    with open(os.path.join(REPO, 'grammar.txt')) as f:
        return f.read()


def repo_corpus():
    """every grammar description in the repository's tests, README, docs and examples"""
    out = [grammar_txt()]
    for f in sorted(glob.glob(os.path.join(REPO, 'tests', '*.py')) + glob.glob(os.path.join(REPO, 'examples', '*.py'))):
        try:
            t = ast.parse(open(f).read())
        except SyntaxError:
            continue
        for n in ast.walk(t):
            if isinstance(n, ast.Call) and getattr(n.func, 'id', getattr(n.func, 'attr', None)) == 'Grammar' and n.args:
                a = n.args[0]
                if isinstance(a, ast.Constant) and isinstance(a.value, str):
                    out.append(a.value)
    for f in sorted([os.path.join(REPO, 'README.md')] + glob.glob(os.path.join(REPO, 'docs', '**', '*.md'), recursive=True)):
        txt = open(f).read()
        for m in re.finditer(r'(?s)Grammar\(r?(\'\'\'|""")(.*?)\1', txt):
            out.append(m.group(2))
        for m in re.finditer(r'(?s)~~~\n(.*?)\n~~~', txt):
            out.append(m.group(1).replace('\\\\', '\\'))
    seen = set()
    uniq = []
    for d in out:
        if d not in seen:
            seen.add(d)
            uniq.append(d)
    return uniq


TOKEN = re.compile(r'```.*?```|`[^`\n]*`|"""(?:[^\\]|\\.)*?"""|"(?:[^"\\\n]|\\.)*"[iI]?|\'(?:[^\'\\\n]|\\.)*\'[iI]?|'
                   r'[bB]?/(?:[^/\\\n]|\\.)*/[iI]?|[A-Za-z_][A-Za-z_0-9]*|\d+|=>|>>|<<|\|>|<\||//|/\?|\s+|.', re.S)


def corruptions(d, chars):
    toks = TOKEN.findall(d)
    assert ''.join(toks) == d
    idx = [i for i, t in enumerate(toks) if not t.isspace()]
    for i in idx:
        yield ''.join(toks[:i] + toks[i + 1:])                      # token deleted
        yield ''.join(toks[:i + 1] + toks[i:])                      # token duplicated
    for a, b in zip(idx, idx[1:]):
        t2 = list(toks)
        t2[a], t2[b] = t2[b], t2[a]
        yield ''.join(t2)                                           # neighbours swapped
    if chars and len(d) <= 400:
        for i in range(len(d)):
            yield d[:i] + d[i + 1:]                                 # character deleted


def generated(tier):
    """descriptions rendered by the quick universes of the other checks"""
    from . import c01, c02, c03, c04, c05, c06, c19
    n = 0
    for mod, limit in ((c01, 4000 if tier == 'quick' else 40000), (c02, 1500), (c03, 1500), (c04, 800), (c05, 3000), (c06, 3000)):
        k = 0
        step = 1
        for j in mod.jobs('quick'):
            k += 1
            if k > limit * 6:
                break
            if k % 6 and tier == 'quick':
                continue
            specs = e1.mk_specs(j['mods'])
            alt = j.get('alt')
            altf = (lambda kind, i: alt[i] if i < len(alt) else False) if alt else None
            for d in (j.get('descs') or [render.spec(sp, altf) for sp in specs]):
                yield d
    for d in c19.layout_descriptions(tier):
        yield d


def chunks(it, n):
    buf = []
    for x in it:
        buf.append(x)
        if len(buf) >= n:
            yield buf
            buf = []
    if buf:
        yield buf


def init():
    sourcer = impl.load()
    import sourcer.parser as gen0
    desc = grammar_txt()
    b = impl.build(desc, include_source=True, time_limit=60)
    if b[0] != 'OK':
        return {'gen0': gen0, 'gen1': None, 'err': b}
    return {'gen0': gen0, 'gen1': b[1], 'err': None}


def outcome(p, d):
    o = impl.run(p.parse, d, 0, True, spans=True, time_limit=5.0, patient=True)
    if o['kind'] == 'RET':
        return ('OK', o['value'])
    if o['kind'] == 'PARTIAL':
        return ('PARTIAL', (o['index'], o.get('line'), o.get('column')), o['value'])
    if o['kind'] == 'ERROR':
        return ('ERROR', (o['index'], o.get('line'), o.get('column')))
    if o['kind'] == 'EXC':
        return ('EXC', o['type'])
    return ('DIVERGES',)


def compare_job(job, st):
    tag, descs = job
    res = {'ctr': {'cases': 0, 'nontrivial': 0, 'states': 0, 'transitions': 0}, 'sets': {'outcome_kinds': set()},
           'viol': [], 'viol_keys': []}
    if st['gen1'] is None:
        res['viol'].append({'sig': 'gen1 COMPILE', 'case': {'what': 'Grammar(grammar.txt)'}, 'expected': 'module', 'got': list(st['err'])})
        return res
    sigs = set()
    for d in descs:
        a = outcome(st['gen0'], d)
        b = outcome(st['gen1'], d)
        res['ctr']['cases'] += 1
        res['ctr']['states'] += 1
        res['ctr']['transitions'] += 1
        res['sets']['outcome_kinds'].add(a[0])
        if a[0] != 'OK':
            res['ctr']['nontrivial'] += 1
        if a != b:
            why = 'gen0-%s-vs-gen1-%s' % (a[0], b[0]) if a[0] != b[0] else ('error-position' if a[0] in ('ERROR', 'PARTIAL') else 'tree')
            sig = '%s %s' % (tag, why)
            case = {'description': d, 'what': 'generation 0 vs generation 1'}
            key = case_key(case)
            res['viol_keys'].append((key, sig))
            if sig not in sigs:
                sigs.add(sig)
                res['viol'].append({'sig': sig, 'key': key, 'case': case, 'expected': repr(a)[:300], 'got': repr(b)[:300]})
    res['sample'] = {'corpus': tag, 'description': descs[0][:200]}
    return res


def bootstrap_job(job, st):
    """generation 1 accepts grammar.txt; generation 2 (built with generation 1 installed) has the same source text"""
    res = {'ctr': {'cases': 3, 'nontrivial': 3, 'states': 3, 'transitions': 2}, 'sets': {}, 'viol': [], 'viol_keys': []}
    desc = grammar_txt()

    def bad(sig, got):
        res['viol'].append({'sig': 'bootstrap ' + sig, 'case': {'what': sig}, 'expected': 'fixed point', 'got': got})
    if st['gen1'] is None:
        bad('gen1 does not compile', list(st['err']))
        return res
    g1 = st['gen1']
    src1 = g1._source_code
    o = impl.run(g1.parse, desc, 0, True, time_limit=30)
    if o['kind'] != 'RET':
        bad('gen1 rejects grammar.txt', o['kind'])
    # compile twice: identical text
    b = impl.build(desc, include_source=True, time_limit=60)
    if b[0] != 'OK' or b[1]._source_code != src1:
        bad('gen1 text not reproducible', 'differs')
    # ... also in fresh interpreters started with other hash seeds (the text must not depend on iteration order of sets)
    import hashlib
    h1 = hashlib.sha1(src1.encode()).hexdigest()
    for seed in (1, 2, 3):
        h = impl.source_hashes_in_fresh_interpreter([desc], seed)[0]
        res['ctr']['cases'] += 1
        if h != h1:
            bad('gen1 text differs in a fresh interpreter with PYTHONHASHSEED=%d' % seed, h)
            break
    # install generation 1 the way generate_parser.py does, but in memory
    import sourcer
    import sourcer.grammar
    import sourcer.translator
    m = types.ModuleType('sourcer.parser')
    exec(compile(src1, '<generation 1>', 'exec'), m.__dict__)
    old = (sys.modules.get('sourcer.parser'), sourcer.parser, sourcer.grammar.parser, sourcer.translator.parser)
    sys.modules['sourcer.parser'] = m
    sourcer.parser = sourcer.grammar.parser = sourcer.translator.parser = m
    try:
        b2 = impl.build(desc, include_source=True, time_limit=60)
        if b2[0] != 'OK':
            bad('gen2 does not compile', list(b2))
        else:
            if b2[1]._source_code != src1:
                s2 = b2[1]._source_code
                k = next((i for i, (x, y) in enumerate(zip(src1, s2)) if x != y), min(len(src1), len(s2)))
                bad('gen2 text differs from gen1 text', 'first difference at offset %d: %r vs %r' % (k, src1[k:k + 60], s2[k:k + 60]))
            o2 = impl.run(b2[1].parse, desc, 0, True, time_limit=30)
            if o2['kind'] != 'RET':
                bad('gen2 rejects grammar.txt', o2['kind'])
    finally:
        sys.modules['sourcer.parser'] = old[0]
        sourcer.parser, sourcer.grammar.parser, sourcer.translator.parser = old[1], old[2], old[3]
    res['sample'] = {'bootstrap': 'gen0 -> gen1 -> gen2', 'gen1_source_chars': len(src1)}
    return res


def dispatch(job, st):
    if job[0] == 'bootstrap':
        return bootstrap_job(job, st)
    return compare_job(job, st)


def all_jobs(tier):
    yield ('bootstrap',)
    corpus = repo_corpus()
    yield ('repository', corpus)
    for d in corpus:
        if len(d) > 6000 and tier == 'quick':
            continue
        for ch in chunks(corruptions(d, chars=(tier == 'thorough')), 40):
            yield ('corrupted', ch)
    for ch in chunks(generated(tier), 60):
        yield ('generated', ch)
    if tier == 'thorough':
        # corruptions of a sample of generated descriptions as well
        k = 0
        for d in generated('quick'):
            k += 1
            if k % 50 == 0:
                for ch in chunks(corruptions(d, chars=True), 60):
                    yield ('corrupted-generated', ch)


def run(tier, seed):
    chk = Check('C12', tier, seed)
    chk.rule = ('bootstrap generations 0 (shipped sourcer/parser.py), 1 (grammar.txt compiled by the current code) and 2 (compiled after '
                'installing generation 1): gen1 accepts grammar.txt, gen1 text is reproducible, gen2 text == gen1 text; gen0 and gen1 are '
                'compared (tree incl. positions, or error class and position: index, line, column) on an enumerated corpus: every description in the repository '
                '(tests, README, docs, examples, grammar.txt), every single-token deletion / duplication / neighbour swap of those '
                '(thorough: also every single-character deletion for descriptions <= 400 characters), and the descriptions rendered by the '
                'universes of C01-C06 and C19; non-trivial = descriptions that generation 0 rejects')
    chk.assumptions = ['generation 1 is installed in memory (module swap) instead of rewriting sourcer/parser.py on disk']
    chk.explore(dispatch, all_jobs(tier), init=init, chunk=1, job_deadline=300)
    chk.notes['repository_descriptions'] = len(repo_corpus())
    return chk.finish(floor=1000)


def replay(rep):
    st = init()
    case = rep['case']
    if 'description' in case:
        a, b = outcome(st['gen0'], case['description']), outcome(st['gen1'], case['description'])
        print('gen0:', repr(a)[:300])
        print('gen1:', repr(b)[:300])
        return 0 if a == b else 1
    r = bootstrap_job(('bootstrap',), st)
    print(r['viol'] or 'ok')
    return 1 if r['viol'] else 0
