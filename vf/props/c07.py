"""C07 - packrat guarantee: a rule body is evaluated at most once per position (DESIGN 3/C07)."""
import itertools

from .. import e1, impl, render
from ..core import Check, case_key
from ..model import Spec, Model, IllFormed, FAIL, Counters, plain, Obj
from . import c01

A_, B_ = ('ref', 'A'), ('ref', 'B')
LEAVES = [('str', 'a'), ('str', 'b'), A_, B_]
BODIES_A = {
    'lit': ('rule', None, ('str', 'a')),
    'seqfail': ('rule', None, ('seq', ('str', 'a'), ('str', 'b'))),
    'optB': ('rule', None, ('seq', ('str', 'a'), ('opt', B_))),
    'class': ('class', None, [('x', False, ('str', 'a')), ('y', False, ('opt', ('str', 'b')))]),
    'list': ('rule', None, ('plus', ('str', 'a'))),
    'rec': ('rule', None, ('seq', ('str', 'a'), ('opt', A_))),
}
BODIES_B = {
    'lit': ('rule', None, ('str', 'b')),
    'seqfail': ('rule', None, ('seq', ('str', 'b'), ('str', 'a'))),
    'optA': ('rule', None, ('seq', ('str', 'b'), ('opt', A_))),
    'class': ('class', None, [('x', False, ('str', 'b'))]),
    'list': ('rule', None, ('plus', ('choice', ('str', 'b'), ('str', 'ab')))),
    'rec': ('rule', None, ('seq', ('str', 'b'), ('opt', B_))),
}
QUICK_A = ['seqfail', 'class', 'rec']
QUICK_B = ['lit', 'optA', 'list']

PY = '''TICKS = []
NEST = [0]
def tick(name):
    def f(rest):
        if not NEST[0]:              # evaluations made by a nested parse (started from inline Python) are not counted
            TICKS.append((name, len(rest)))
        return rest
    return f
def nested(v):
    # a callback that starts parses of its own in the middle of the outer parse, and discards their results
    NEST[0] += 1
    try:
        for _t in ('b', 'ab', ''):
            try:
                B.parse(_t)
            except Exception:
                pass
            try:
                parse(_t)
            except Exception:
                pass
    finally:
        NEST[0] -= 1
    return v
tick_A = tick('A')
tick_B = tick('B')
tick_S = tick('S')
tick_start = tick('start')
tick_S1 = tick('S1')
tick_S2 = tick('S2')
tick_Ig0 = tick('Ig0')'''


def count_refs(e):
    if e[0] == 'ref':
        return 1
    return sum(count_refs(x) for x in e[1:] if isinstance(x, tuple))


def probe(name, d):
    """prefix the rule body with a zero-width tick probe (implementation side only)"""
    p = ('expect', ('apply', ('re', '(?s).*'), ('py', 'tick_%s' % name)))
    if d[0] == 'rule':
        return ('rule', d[1], ('right', p, d[2]))
    return ('class', d[1], [(None, True, p)] + list(d[2]))


def mutual_ok(a, b):
    # A's optB with B's optA is guarded recursion through consumption: fine
    return True


def starts_small():
    yield ('star', ('choice', A_, B_))
    yield ('seq', A_, B_)
    yield ('star', ('seq', A_, ('opt', B_)))
    yield ('seq', ('expect', A_), A_, ('opt', B_))
    yield ('choice', ('seq', A_, B_), ('seq', A_, A_), A_)


def universe(tier):
    aset = QUICK_A if tier == 'quick' else list(BODIES_A)
    bset = QUICK_B if tier == 'quick' else list(BODIES_B)
    aux = {'A': ('rule', None, ('str', 'a')), 'B': ('rule', None, ('str', 'b'))}
    starts = []
    for n in range(1, 3):
        for e in c01.gen(n, LEAVES):
            if count_refs(e) >= 2 and c01.wellformed(e, aux):
                starts.append(e)
    for an in aset:
        for bn in bset:
            for e in starts:
                yield ('menu', e, [('A', BODIES_A[an]), ('B', BODIES_B[bn])], 'ab:4', True, [])
    # ignore rules are parameterless rules too: their bodies (with a probe) must run once per position
    SPACE = ('re', ' +')
    for e in starts_small():
        for an in ('lit', 'seqfail', 'class'):
            for bn in ('lit', 'list'):
                yield ('ignore-rule', e, [('A', BODIES_A[an]), ('B', BODIES_B[bn])], 'ab\\s:5', True, [SPACE])
    # re-entrancy: a callback inside rule A starts nested parses; the outer parse must still evaluate every
    # rule once per position
    NA = [('rule', None, ('apply', ('str', 'a'), ('py', 'nested'))),
          ('rule', None, ('seq', ('apply', ('str', 'a'), ('py', 'nested')), ('opt', B_))),
          ('class', None, [('x', False, ('apply', ('str', 'a'), ('py', 'nested'))), ('y', False, ('opt', ('str', 'b')))])]
    # (B is evaluated at a position, then A's callback runs nested parses, then B is referred to again there)
    RS = list(starts_small()) + [
        ('seq', ('expect', ('seq', ('opt', B_), A_)), ('opt', B_), A_),
        ('choice', ('seq', B_, A_, ('str', '!')), ('seq', B_, A_)),
        ('choice', ('seq', ('opt', B_), A_, ('str', '!')), ('seq', ('opt', B_), A_), B_),
        ('longest', ('seq', ('star', B_), A_), ('seq', ('star', B_), A_, B_)),
    ]
    for e in RS:
        for na in NA:
            for bn in ('lit', 'list'):
                yield ('re-entrant', e, [('A', na), ('B', BODIES_B[bn])], 'ab!:4', False, [])
    # an alias rule (its whole body is a reference, no probe of its own): the aliased rule is reached through the alias and
    # directly at one position; and a rule passed as a template argument, reached through the parameter and directly
    AL = ('ref', 'Al')
    for e in (('choice', ('seq', AL, ('str', '!')), ('seq', A_, ('str', '?')), A_), ('seq', ('expect', AL), A_), ('longest', AL, ('seq', A_, B_)),
              ('choice', ('seq', A_, ('str', '!')), AL)):
        for an in ('lit', 'seqfail', 'class', 'list'):
            yield ('alias-rule', e, [('A', BODIES_A[an]), ('B', BODIES_B['lit']), ('Al', ('rule', None, A_))], 'ab!?:4', False, [])
    P1 = ('call', 'P1', [A_], [])
    P2 = ('call', 'P2', [], [('q', A_)])
    TP = [('P1', ('rule', ['p'], ('seq', ('ref', 'p'), ('str', '!')))), ('P2', ('rule', ['q'], ('seq', ('expect', ('ref', 'q')), ('ref', 'q'), ('str', '?'))))]
    for e in (('choice', P1, P2, A_), ('seq', ('expect', P1), A_), ('choice', ('seq', A_, ('str', ';')), P1, P2), ('longest', P1, A_, P2)):
        for an in ('lit', 'seqfail', 'class', 'list'):
            yield ('rule-as-argument', e, [('A', BODIES_A[an]), ('B', BODIES_B['lit'])] + TP, 'ab!?:4', False, [])
    # a long input: more memo entries than any plausible size cap, then backtracking over the whole input
    LONG = [('S1', ('rule', None, ('star', A_))), ('S2', ('rule', None, ('star', ('choice', A_, B_)))), ('A', ('rule', None, ('str', 'a'))),
            ('B', ('rule', None, ('str', 'b')))]
    n = 70000 if tier == 'quick' else 300000
    yield ('long-input', ('choice', ('seq', ('ref', 'S1'), ('str', '!')), ('seq', ('ref', 'S2'), ('str', '?')), ('ref', 'S2')),
           LONG, ['a' * n + '?', 'a' * n + 'b', 'a' * (n // 2) + 'b' + 'a' * (n // 2) + '!'], False, [])
    # families whose un-memoised evaluation is exponential
    S = ('ref', 'S')
    fams = [
        [('S', ('rule', None, ('choice', ('seq', A_, ('str', 'x')), ('seq', A_, ('str', 'y')), A_))),
         ('A', ('rule', None, ('choice', ('seq', ('str', '('), S, ('str', ')')), ('str', 'a'))))],
        [('S', ('rule', None, ('choice', ('right', ('expect', ('seq', A_, ('str', 'x'))), A_), ('seq', A_, ('str', 'y')), A_))),
         ('A', ('rule', None, ('choice', ('seq', ('str', '('), S, ('str', ')')), ('str', 'a'))))],
        [('S', ('rule', None, ('longest', ('seq', A_, ('str', 'x')), ('seq', A_, ('str', 'y')), A_))),
         ('A', ('class', None, [('v', False, ('choice', ('seq', ('str', '('), S, ('str', ')')), ('str', 'a')))]))],
    ]
    depths = (3, 10, 25, 40) if tier == 'quick' else (3, 6, 10, 15, 25, 40, 80)
    for rules in fams:
        deep = []
        for d in depths:
            for tail in ('', 'x', 'y', 'z'):
                deep.append('(' * d + 'a' + ')' * d + tail)
                deep.append('(' * d + 'a' + ')' * (d - 1) + tail)
        yield ('expfam-small', S, rules, 'a()xy:%d' % (5 if tier == 'quick' else 6), True, [])
        yield ('expfam-deep', S, rules, deep, False, [])


def jobs(tier):
    for tag, e, rules, inp, unmemo, ign in universe(tier):
        yield {'tag': tag, 'start': e, 'rules': rules, 'inputs': inp, 'unmemo': unmemo, 'ignores': ign}


def aliases(v, path, out, is_impl):
    """map id -> [paths] for mutable result nodes (lists, objects)"""
    if is_impl:
        if isinstance(v, list):
            out.setdefault(id(v), []).append(path)
            for i, x in enumerate(v):
                aliases(x, path + (i,), out, True)
        elif impl.is_obj(v):
            out.setdefault(id(v), []).append(path)
            for f in v._fields:
                aliases(getattr(v, f), path + (f,), out, True)
    else:
        if isinstance(v, list):
            out.setdefault(id(v), []).append(path)
            for i, x in enumerate(v):
                aliases(x, path + (i,), out, False)
        elif isinstance(v, Obj):
            out.setdefault(id(v), []).append(path)
            for f, x in v.fields:
                aliases(x, path + (f,), out, False)
    return out


def run_job(job):
    res = {'ctr': {}, 'sets': {'outcome_kinds': set()}, 'viol': [], 'viol_keys': []}
    ctr = res['ctr']

    def bump(k, n=1):
        ctr[k] = ctr.get(k, 0) + n
    rules = [('start', ('rule', None, job['start']))] + list(job['rules'])
    ign = job.get('ignores') or []
    mspec = Spec(rules, ignores=ign, py=['nested = lambda v: v'])
    # (inside an ignore rule every literal is itself followed by a skip, so the probe must not
    # match the empty string: it would re-enter the skip at the end of the text for ever)
    iprobe = lambda i: ('opt', ('expect', ('apply', ('re', '(?s).+'), ('py', 'tick_Ig%d' % i))))
    ispec = Spec([(n, (probe(n, d) if n in ('start', 'A', 'B', 'S', 'S1', 'S2') else d)) for n, d in rules], py=[PY],
                 ignores=[('right', iprobe(i), p) for i, p in enumerate(ign)])
    desc = render.spec(ispec)
    b = impl.build(desc)
    tag = job['tag']
    if b[0] != 'OK':
        res['viol'].append({'sig': tag + ' COMPILE', 'case': {'descs': [desc], 'what': 'Grammar()'},
                            'expected': 'module', 'got': list(b)})
        return res
    g = b[1]
    inputs = job['inputs']
    if isinstance(inputs, str):
        inputs = e1.input_set(inputs)
    counters = Counters()
    nrules = len(rules) + len(ign)
    sigs = set()
    sample = None
    for text in inputs:
        mticks = {}
        mdl = Model(mspec, counters=counters, tick=lambda n, p: mticks.__setitem__((n, p), mticks.get((n, p), 0) + 1))
        try:
            r = mdl.parse('start', text)
        except (IllFormed, RecursionError):
            bump('skipped_illformed')
            continue
        nontrivial = not job['unmemo']
        if job['unmemo']:
            uticks = [0]
            um = Model(mspec, memoize=False, tick=lambda n, p: uticks.__setitem__(0, uticks[0] + 1))
            try:
                r2 = um.parse('start', text)
            except (IllFormed, RecursionError):
                bump('skipped_illformed')
                continue
            if plain(r2[0] if r2 else None) != plain(r[0] if r else None):
                raise AssertionError('model self-check: memoised != un-memoised on %r %r' % (desc, text))
            nontrivial = uticks[0] > sum(mticks.values())
        del g.TICKS[:]
        limit = 2.0 if len(text) < 1000 else 60.0
        out = impl.run(g.parse, text, 0, True, raw=True, time_limit=limit)
        if out['kind'] == 'DIVERGES':
            del g.TICKS[:]
            out = impl.run(g.parse, text, 0, True, raw=True, time_limit=limit * 10)
        ticks = list(g.TICKS)
        bump('cases')
        if nontrivial:
            bump('nontrivial')
        res['sets']['outcome_kinds'].add(out['kind'])
        n = len(text)
        why = None
        per = {}
        for name, rest in ticks:
            per[(name, n - rest)] = per.get((name, n - rest), 0) + 1
        over = {k: v for k, v in per.items() if v > 1}
        exp = ('FAIL',) if r is FAIL else ('OK', plain(r[0]), r[1])
        if out['kind'] == 'RET':
            got = ('OK', impl.canon(out['value']), n)
        elif out['kind'] == 'PARTIAL':
            got = ('OK', impl.canon(out['value']), out['index'])
        elif out['kind'] == 'ERROR':
            got = ('FAIL',)
        else:
            got = (out['kind'], out.get('type'))
        if out['kind'] == 'DIVERGES':
            why = 'DIVERGES'
        elif over:
            why = 'rule-evaluated-twice-at-one-position'
        elif len(ticks) > nrules * (n + 1):
            why = 'more-evaluations-than-rules-x-positions'
        elif got != exp:
            why = 'outcome-differs-from-model'
        elif r is not FAIL:
            ma = aliases(r[0], (), {}, False)
            ia = aliases(out['value'], (), {}, True)
            ipath = {}
            for oid, paths in ia.items():
                for p in paths:
                    ipath[p] = oid
            for oid, paths in ma.items():
                if len(paths) > 1:
                    ids = {ipath.get(p) for p in paths}
                    if len(ids) != 1 or None in ids:
                        why = 'memoised-result-not-the-same-object'
                        break
            if why is None and sum(mticks.values()) and not ticks:
                why = 'probe-dead'
        bump('ticks', len(ticks))
        bump('states', counters.states)
        bump('transitions', counters.transitions)
        counters.states = counters.transitions = 0
        if sample is None:
            sample = {'grammar': desc, 'text': text, 'ticks': ticks[:12], 'model_ticks': sorted(mticks)[:12]}
        if why:
            case = {'descs': [desc], 'entry': [None, None], 'text': text, 'pos': 0, 'fullparse': True}
            key = case_key(case)
            sig = '%s %s' % (tag, why)
            res['viol_keys'].append((key, sig))
            if sig not in sigs:
                sigs.add(sig)
                res['viol'].append({'sig': sig, 'key': key, 'case': case, 'expected': exp,
                                    'got': {'outcome': got, 'over': sorted(over.items())[:5], 'ticks': len(ticks)}})
            if why == 'DIVERGES':
                break
    res['sample'] = sample
    return res


def run(tier, seed):
    chk = Check('C07', tier, seed)
    chk.rule = ('start expressions with <=2 operators over {"a","b",A,B} mentioning a rule at least twice x rule-body menus '
                '(3x3 quick, 6x6 thorough) x all inputs over {a,b} of length <=4, plus three families whose un-memoised '
                'evaluation is exponential (all inputs <=5/6 and nesting depth up to 40/80), a family whose rule A starts nested parses from '
                'inline Python, a family with probed ignore rules, and inputs of 70 000 (thorough 300 000) characters that are parsed, '
                'abandoned and parsed again through another rule; every rule body carries a '
                'zero-width inline-Python probe; oracle: <=1 evaluation per <rule, position>, total <= rules x (n+1), same '
                'object for the same <rule, position>, outcome == model; non-trivial = the un-memoised model evaluates '
                'strictly more rule bodies than the memoised one (a memo hit is needed)')
    chk.assumptions = ['reference interpreter vf/model.py', 'probe: Expect(/(?s).*/ |> `tick`) is zero-width']
    chk.explore(run_job, jobs(tier), chunk=8, job_deadline=120)
    return chk.finish(floor=1000)


def replay(rep):
    case = rep['case']
    b = impl.build(case['descs'][0])
    g = b[1]
    del g.TICKS[:]
    out = impl.run(g.parse, case['text'], 0, True, time_limit=30.0)
    n = len(case['text'])
    per = {}
    for name, rest in g.TICKS:
        per[(name, n - rest)] = per.get((name, n - rest), 0) + 1
    over = {k: v for k, v in per.items() if v > 1}
    print('outcome', out, 'evaluated more than once:', over)
    return 1 if (over or out['kind'] == 'DIVERGES') else 0
