"""C10 - class instances carry the exact span of input they were parsed from (DESIGN 3/C10)."""
from .. import e1
from ..core import Check

A, B = ('str', 'a'), ('str', 'b')
K, K2 = ('ref', 'K'), ('ref', 'K2')
CLASSES = [
    ('K', ('class', None, [('k', False, A), ('j', False, ('opt', B))])),
    ('K2', ('class', None, [('inner', False, K), ('z', False, ('opt', A))])),
    ('P', ('class', ['x'], [('v', False, ('ref', 'x')), ('w', False, ('opt', B))])),
    ('W', ('class', None, [('xs', False, ('star', K))])),
    ('E', ('rule', None, ('optable', K, (('left', (('str', 'b'),)), ('prefix', (('str', 'b'),)))))),
    ('A1', ('class', None, [('k', False, A)])),
    # a class whose member is a table with a non-associative row (the expression ends before a chained operator)
    ('Cmp', ('class', None, [('e', False, ('optable', ('ref', 'A1'), (('infix', (('str', 'b'),)),))), ('t', False, ('opt', B))])),
    # a class whose member is a choice with a bare lookahead as non-last alternative (the lookahead fails after consuming)
    ('Look', ('class', None, [('t', False, ('choice', ('expect', ('seq', K, ('str', 'bb'))), ('ref', 'A1')))])),
    # a class whose member is a choice that cannot fail, after an alternative that consumes and then fails
    ('Alt', ('class', None, [('v', False, ('choice', ('seq', K, ('str', 'bb')), ('opt', ('ref', 'A1'))))])),
]
# classes present only in the grammars of the start shapes that use them
EXTRA = [
    # a list with optional trailer whose separator may fail after consuming ("b" >> "b" on a single b)
    ('Chain', ('class', None, [('items', False, ('sep', ('ref', 'A1'), ('right', B, B), True, True, False, False))])),
    # an option that fails late, after a template call with a literal argument and a nested option
    ('Tm', ('rule', ['x'], ('ref', 'x'))),
    ('Stmt', ('class', None, [('h', False, ('ref', 'A1')),
                              ('t', False, ('opt', ('left', ('right', ('call', 'Tm', [B], []), ('opt', ('ref', 'A1'))), ('str', 'bb'))))])),
    # a repetition of a literal with a predicate written in place (the rejected token must be given back)
    ('Block', ('class', None, [('ws', False, ('star', ('where', ('re', '[ab]'), ('py', "lambda w: w != 'b'")))),
                               ('e', False, ('opt', ('str', 'bb')))])),
]
STARTS = [
    ('star', ('rule', None, ('star', K)), True),
    ('opt', ('rule', None, ('seq', ('opt', K2), ('star', K))), True),
    ('abandoned', ('rule', None, ('star', ('choice', ('seq', K, ('str', 'bb')), ('seq', K2, B), K))), True),
    ('memo', ('rule', None, ('seq', ('expect', K), K)), False),
    ('lookahead', ('rule', None, ('seq', ('expect', K2), ('star', K))), False),
    ('lookahead2', ('rule', None, ('seq', ('expect', ('ref', 'W')), ('opt', K))), False),
    ('nested', ('rule', None, ('star', ('choice', K2, K))), True),
    ('optable', ('rule', None, ('ref', 'E')), True),
    ('template', ('rule', None, ('star', ('call', 'P', [A], []))), True),
    ('classstart', ('class', None, [('xs', False, ('star', K)), ('t', False, ('opt', K2))]), True),
    ('listfield', ('rule', None, ('star', ('seq', ('ref', 'W'), B))), True),
    ('backtrack', ('rule', None, ('seq', K, ('back', 1), ('opt', K))), False),
    ('expectnot', ('rule', None, ('seq', ('expectnot', K2), ('star', K))), True),
    ('optable-infix', ('rule', None, ('star', ('ref', 'Cmp'))), True),
    ('always-choice', ('rule', None, ('star', ('seq', ('ref', 'Alt'), ('opt', B)))), True),
    ('lookahead-alternative', ('rule', None, ('star', ('seq', ('ref', 'Look'), ('opt', B)))), False),
    ('sep-half-separator', ('rule', None, ('star', ('seq', ('ref', 'Chain'), ('opt', B)))), True),
    ('late-failing-option', ('rule', None, ('star', ('seq', ('ref', 'Stmt'), ('opt', B)))), True),
    ('where-in-place', ('rule', None, ('star', ('seq', ('ref', 'Block'), ('opt', B)))), True),
    # instances held in dict values and tuples built by inline Python
    ('dict-values', ('rule', None, ('apply', ('star', K), ('py', "lambda xs: {'items': xs, 'first': xs[:1], 'n': len(xs)}"))), False),
    ('tuple-values', ('rule', None, ('apply', ('seq', ('opt', K2), ('star', K)), ('py', 'lambda p: (p[0], tuple(p[1]))'))), False),
]
# (name, patterns, style, input alphabet): \r and form feed are not line breaks for sourcer
IGNORES = [('none', [], 'named', 'ab\\r\\n'), ('sp', [('re', ' +')], 'named', 'ab\\s\\n'),
           ('spnl', [('re', '[ \\n]+')], 'named', 'ab\\s\\n'), ('spnl-anon', [('re', '[ \\n]+')], 'anon', 'ab\\s\\n'),
           ('ws', [('re', '\\s+')], 'named', 'ab\\r\\f'),
           # an ignorable made of two literals, listed last (it can fail after consuming its first part)
           ('multi-last', [('re', ' +'), ('seq', ('str', '\r'), ('str', '\n'))], 'named', 'ab\\r\\n\\s')]


def spans_in(v, out):
    """flatten canonical value into nested structure of spans: returns list of (s, e) of the object spans
    directly contained (through lists) in v, recursing"""
    return out


def check_inv(v, why):
    """returns (lo, hi) covered by objects in v (or None); appends reasons to why"""
    if not isinstance(v, tuple) or not v:
        return None
    if v[0] == 'O':
        sp = v[3] if len(v) > 3 else None
        if sp is not None and sp[0] != 'SPAN':
            why.append('span-not-converted')
            return None
        prev_hi = None
        lo = hi = None
        for f, x in v[2]:
            r = check_inv(x, why)
            if r is None:
                continue
            if prev_hi is not None and r[0] <= prev_hi:
                why.append('fields-overlap-or-out-of-order')
            prev_hi = r[1]
            lo = r[0] if lo is None else min(lo, r[0])
            hi = r[1] if hi is None else max(hi, r[1])
        if sp is None:
            return None if lo is None else (lo, hi)
        s, e = sp[1], sp[2]
        if e < s:
            return None     # consumed nothing
        if lo is not None and (lo < s or hi > e):
            why.append('child-span-outside-parent')
        return (s, e)
    if v[0] in ('L', 'T'):
        prev_hi = None
        lo = hi = None
        for x in v[1:]:
            r = check_inv(x, why)
            if r is None:
                continue
            if prev_hi is not None and r[0] <= prev_hi:
                why.append('elements-overlap-or-out-of-order')
            prev_hi = r[1]
            lo = r[0] if lo is None else min(lo, r[0])
            hi = r[1] if hi is None else max(hi, r[1])
        return None if lo is None else (lo, hi)
    return None


def invariants(job, text, pos, full, r, out):
    if out['kind'] not in ('RET', 'PARTIAL'):
        return None
    why = []
    check_inv(out['value'], why)
    if not job.get('ordered'):
        why = [w for w in why if w == 'span-not-converted']
    return why[0] if why else None


e1.POST['c10_inv'] = invariants


def jobs(tier):
    n = 5 if tier == 'quick' else 6
    for sn, sd, ordered in STARTS:
        for iname, pats, style, sigma in IGNORES:
            inp = '%s:%d' % (sigma, n)
            sname = 'Start' if sd[0] == 'class' else 'start'
            rules = [(sname, sd)] + CLASSES + (EXTRA if sn in ('sep-half-separator', 'late-failing-option', 'where-in-place') else [])
            entries = [(None, None)] + [(n, None) for n, d in rules if not d[1]]
            mods = [(tuple(rules), tuple(pats), sname, None, (), False, style, None)]
            yield {'mods': mods, 'inputs': inp, 'mode': 'spans', 'entries': entries, 'positions': 'all', 'fullparse': (True, False),
                   'tag': '%s/%s' % (sn, iname), 'post': 'c10_inv', 'ordered': ordered}


def run(tier, seed):
    chk = Check('C10', tier, seed)
    chk.rule = ('20 start shapes with classes (a separated list whose separator fails half-way, an option failing after a template call and a nested option, a predicate written in place on a repeated literal, repeated, optional, nested, abandoned alternatives that built instances, memoised reuse, '
                'parsed inside lookahead, inside an operator table, class template, class as start rule, list fields, Backtrack, a non-associative table inside a class, a choice that cannot fail, instances held in dict values and tuples) x 5 '
                'ignore configurations x every parameterless rule/class as entry x all inputs over {a,b,space,newline} of length <=5/6 x '
                'every start offset; oracle: spans recorded by the model (start/end index, line/column) plus nesting / disjointness / '
                'order / converted-exactly-once invariants on the implementation tree; non-trivial = the model run needed a restore')
    chk.assumptions = ['reference interpreter; an instance that consumed nothing is unconstrained']
    chk.explore(e1.run_job, jobs(tier), chunk=1, job_deadline=600)
    return chk.finish(floor=1000)


def replay(case):
    return e1.replay_case(case, 'spans')
