"""C17 - nesting depth never changes meaning or exhausts the Python stack (DESIGN 3/C17)."""
import sys

from .. import e1, impl, render
from ..core import Check, case_key
from ..model import Spec

X = ('str', 'x')
INNERS = {
    'str': (X, []),
    'regex': (('re', 'x'), []),
    'rule': (('ref', 'R'), [('R', ('rule', None, X))]),
    'template': (('call', 'T', [X], []), [('T', ('rule', ['p'], ('ref', 'p')))]),
    'class': (('ref', 'K'), [('K', ('class', None, [('k', False, X)]))]),
    'seq-with-rule': (('seq', ('ref', 'R'), ('opt', ('ref', 'R'))), [('R', ('rule', None, X))]),
    'letname': (('py', 'v'), []),            # binder outside the wrappers, use inside
    'letcount': (('rep', X, 'n', 'n'), []),   # data-dependent count bound outside the wrappers
    'choice-rules': (('choice', ('seq', ('ref', 'R'), ('str', 'y')), ('ref', 'R')), [('R', ('rule', None, X))]),
    'letcount-min': (('rep', X, 'n', None), []),     # the name is used as lower bound only
    'letcount-max': (('rep', X, None, 'n'), []),     # ... as upper bound only
    # the binder is a class member (plain or let) and the use lies inside the wrappers of a later member
    'member-count': (('rep', X, 'n', 'n'), []),
    'letmember-count': (('rep', X, 'n', None), []),
    'letmember-name': (('py', 'n'), []),
    # an inner let that shadows a name bound outside the wrappers (the outer value is read again afterwards)
    'shadowlet': (('let', 'v', X, ('py', 'v')), []),
    # choices that cannot fail as a whole, whose first option may consume input before it fails
    'partial-choice-opt': (('choice', ('seq', X, ('str', 'zz')), ('opt', ('ref', 'R'))), [('R', ('rule', None, X))]),
    'partial-choice-star': (('choice', ('right', X, ('str', 'y')), ('star', ('ref', 'R'))), [('R', ('rule', None, X))]),
}
WRAPPERS = {
    'seq': lambda e: ('seq', e),
    'group': lambda e: ('group', e),
    'opt': lambda e: ('opt', e),
    'choice': lambda e: ('choice', ('str', '\x00'), e),
    'right': lambda e: ('right', ('str', ''), e),
    'mixed': None,
}
MIX = ['seq', 'opt', 'choice', 'right', 'group']


def wrap(inner, wname, depth):
    e = inner
    for i in range(depth):
        w = WRAPPERS[MIX[i % len(MIX)]] if wname == 'mixed' else WRAPPERS[wname]
        e = w(e)
    return e


def depths(tier):
    if tier == 'thorough':
        return list(range(1, 131))
    return list(range(1, 61)) + [70, 80, 90, 100, 110, 120]


def jobs(tier):
    for iname, (inner, extra) in INNERS.items():
        for wname in WRAPPERS:
            for d in depths(tier):
                body = wrap(inner, wname, d)
                if iname == 'letname':
                    body = ('let', 'v', X, body)
                elif iname in ('letcount', 'letcount-min', 'letcount-max'):
                    body = ('let', 'n', ('apply', ('re', '\\d'), ('py', 'int')), body)
                elif iname in ('member-count', 'letmember-count', 'letmember-name'):
                    body = None
                elif iname == 'shadowlet':
                    body = ('let', 'v', ('re', 'y?'), ('seq', body, ('py', 'v')))
                for ign in (False, True):
                    for named in ((False, True) if d % 3 == 0 or tier == 'thorough' else (False,)):
                        if body is None:
                            omitted = iname != 'member-count'
                            cls = ('class', None, [('n', omitted, ('apply', ('re', '\\d'), ('py', 'int'))),
                                                   ('xs', False, wrap(inner, wname, d))])
                            rules = [('start', ('rule', None, ('ref', 'Km'))), ('Km', cls)] + extra
                        else:
                            rules = [('start', ('rule', None, body))] + extra
                        mods = [(tuple(rules), ((('re', ' +'),) if ign else ()), 'start', None, (), False, 'named', None)]
                        if iname.startswith(('letcount', 'member-', 'letmember-')):
                            inputs = ['1x', '2xx', '0', '2x', '1xx', '', 'x']
                        elif iname == 'letname':
                            inputs = ['x', '', 'y', 'xx', 'x ']
                        elif iname == 'shadowlet':
                            inputs = ['x', 'yx', '', 'y', 'xx', 'yx ']
                        else:
                            inputs = ['x', '', 'y', 'xx', 'x ', ' x', 'xy', 'xx ']
                        yield {'mods': mods, 'inputs': inputs, 'mode': 'simple', 'named': named,
                               'tag': 'nest-%s-%s%s%s' % (iname, wname, '/ignore' if ign else '', '/named' if named else ''),
                               'time_limit': 2.0, 'depth': d}


# --- wrappers inside the body of a template: the deep part holds nothing but parameter references (after C17-10) ---
P = ('ref', 'p')
TBODIES = {
    'param': P,
    'param-twice': ('seq', P, ('opt', P)),
    'param-call': ('call', 'f', [P], []),             # the parameter f is itself a template
    'param-value': ('rep', P, 'n', 'n'),              # a value parameter as count of an expression parameter
    'param-choice': ('choice', ('seq', P, ('str', 'y')), P),
}


def template_jobs(tier):
    ds = ((1, 5, 10, 14, 16, 17, 18, 19, 20, 21, 22, 24, 30, 38, 39, 40, 41, 45, 60, 80) if tier == 'quick' else range(1, 101))
    for bname, tb in TBODIES.items():
        for wname in WRAPPERS:
            for d in ds:
                body = wrap(tb, wname, d)
                for host in ('rule', 'class'):
                    params = {'param-call': ['f', 'p'], 'param-value': ['p', 'n']}.get(bname, ['p'])
                    if host == 'rule':
                        tdef = ('rule', params, body)
                    else:
                        tdef = ('class', params, [('k', False, body)])
                    for aname, arg in (('lit', X), ('rule', ('ref', 'R')), ('seq', ('seq', ('ref', 'R'), ('opt', ('str', 'y'))))):
                        if bname == 'param-call':
                            args = [('ref', 'ID'), arg]
                        elif bname == 'param-value':
                            args = [arg, ('py', '2')]
                        else:
                            args = [arg]
                        rules = [('start', ('rule', None, ('call', 'T', args, []))), ('T', tdef),
                                 ('R', ('rule', None, X)), ('ID', ('rule', ['q'], ('ref', 'q')))]
                        for ign in (False, True):
                            mods = [(tuple(rules), ((('re', ' +'),) if ign else ()), 'start', None, (), False, 'named', None)]
                            yield {'mods': mods, 'inputs': ['x', 'xx', '', 'y', 'xy', 'x ', 'xx ', 'xyx', 'xxy', 'x x'],
                                   'mode': 'simple', 'named': d % 2 == 0,
                                   'tag': 'nest-in-template-%s-%s-%s-%s%s' % (host, bname, aname, wname, '/ignore' if ign else ''),
                                   'time_limit': 2.0, 'depth': d}


def chain_jobs(tier):
    """a derived grammar overrides the rule referred to from the deep part (and adds an ignore of its own)"""
    ds = (1, 8, 12, 14, 15, 16, 17, 18, 19, 20, 22, 25, 30, 40, 60) if tier == 'quick' else range(1, 70)
    for iname in ('rule', 'seq-with-rule', 'choice-rules', 'class'):
        inner, extra = INNERS[iname]
        for wname in ('seq', 'right', 'mixed', 'opt'):
            for d in ds:
                body = wrap(inner, wname, d)
                base = [('start', ('rule', None, body))] + extra
                for dign in (False, True):
                    if iname == 'class':
                        der = [('K', ('class', None, [('k', False, ('str', 'y'))]))]
                    else:
                        der = [('R', ('rule', None, ('choice', ('str', 'y'), ('super', 'R'))))]
                    der.append(('Zz', ('rule', None, ('str', 'z'))))
                    mods = [(tuple(base), (), 'start', None, (), False, 'named', None),
                            (tuple(der), ((('re', ' +'),) if dign else ()), 'start', None, (), False, 'named', None)]
                    yield {'mods': mods, 'inputs': ['x', 'y', '', 'xy', 'xx', 'x ', 'y ', 'yy'], 'mode': 'simple', 'named': True,
                           'entries': [(None, 0), (None, 1)], 'time_limit': 2.0,
                           'tag': 'nest-chain-%s-%s%s' % (iname, wname, '/derived-ignore' if dign else '')}


# --- deep recursion driven by the input ------------------------------------------------------
DEEP = {
    'plain': 'S = ("(" >> S << ")") | "x"\nstart = S\n',
    'template': 'T(p) = ("(" >> T(p) << ")") | p\nstart = T("x")\n',
    'class': 'class N {\n    open: "("\n    inner: N | "x"\n    close: ")"\n}\nstart = N | "x"\n',
    'mixfix': 'E = "x" between {\n    mixfix: "(" >> E << ")"\n}\nstart = E\n',
    'classlist': 'class B {\n    items: "[" >> (B | "x")* << "]"\n}\nstart = B\n',
    'ignore': 'ignore / +/\nS = ("(" >> S << ")") | "x"\nstart = S\n',
}


def deep_job(job):
    _, kind, n = job
    res = {'ctr': {'cases': 1, 'nontrivial': 1, 'states': n, 'transitions': n}, 'sets': {}, 'viol': [], 'viol_keys': []}
    desc = DEEP[kind]
    b = impl.build(desc)
    why = None
    if b[0] != 'OK':
        why = 'COMPILE %r' % (b,)
    else:
        g = b[1]
        if kind == 'classlist':
            text = '[' * n + 'x' + ']' * n
        elif kind == 'ignore':
            text = '( ' * n + 'x' + ' )' * n
        else:
            text = '(' * n + 'x' + ')' * n
        old = sys.getrecursionlimit()
        sys.setrecursionlimit(1000)
        try:
            out = impl.run(g.parse, text, 0, True, raw=True, time_limit=120.0)
        finally:
            sys.setrecursionlimit(old)
        if out['kind'] != 'RET':
            why = '%s %s' % (out['kind'], out.get('type', ''))
        else:
            v = out['value']
            depth = 0
            if kind in ('plain', 'template', 'mixfix', 'ignore'):
                if v != 'x':
                    why = 'value'
            elif kind == 'class':
                while impl.is_obj(v):
                    depth += 1
                    v = v.inner
                if v != 'x' or depth != n:
                    why = 'value (depth %d)' % depth
            elif kind == 'classlist':
                while impl.is_obj(v):
                    depth += 1
                    v = v.items[0] if v.items else None
                if v != 'x' or depth != n:
                    why = 'value (depth %d)' % depth
    if why:
        case = {'descs': [desc], 'deep': kind, 'depth': n}
        res['viol'].append({'sig': 'deep-%s %s' % (kind, why.split(' (')[0]), 'case': case,
                            'expected': 'parses; no RecursionError', 'got': why})
    res['sample'] = {'deep_recursion': kind, 'depth': n}
    return res


def dispatch(job):
    if isinstance(job, tuple) and job[0] == 'deep':
        return deep_job(job)
    return e1.run_job(job)


def run(tier, seed):
    chk = Check('C17', tier, seed)
    chk.rule = ('17 inner expressions (two choices that cannot fail as a whole but whose first option may fail after consuming, string, regex, rule reference, template call, class, sequence with rule references, use of a let name, '
                'data-dependent count, choice of rule references, an inner let shadowing an outer name, counts used as lower / upper bound only, counts and names bound by plain and let class members) x 6 wrapper kinds ([e], (e), Opt(e), "\\x00"|e, ""'
                '>>e, mixed) x every nesting depth 1..60 plus 70..120 step 10 (thorough: every depth 1..130) x ignore off/on x unnamed/named, on the '
                'accepted text and near-misses; the rule-bearing inner kinds additionally in a base grammar extended by a grammar that overrides the rule (and adds an ignore) at 15 depths (thorough 1..69); 5 template bodies made of parameter references only (parameter, twice, called as a template, repeated by a value parameter, in a choice) wrapped INSIDE a rule or class template x 6 wrapper kinds x 20 depths (thorough 1..100) x 3 argument shapes x ignore off/on; oracle: reference model of the wrapped expression; plus input-driven rule recursion to '
                'depth 10^3 and 10^4 (thorough 10^5) through a plain rule, template, class, mixfix row, class list and with ignore under the '
                'default recursion limit; non-trivial = depth >= 18 (beyond the first block-budget threshold)')
    chk.assumptions = ['reference interpreter', 'memory cap 4 GB per worker']
    deep = [1000, 10000] if tier == 'quick' else [1000, 10000, 100000]
    alljobs = [('deep', k, n) for n in deep for k in DEEP] + list(jobs(tier)) + list(chain_jobs(tier)) + list(template_jobs(tier))
    alljobs.sort(key=lambda j: 0 if isinstance(j, tuple) else 1)
    chk.explore(dispatch, alljobs, chunk=2, job_deadline=300)
    # non-trivial count: cases at depth >= 18 are not tracked per case by e1; approximate from jobs
    return chk.finish(floor=100)


def replay(rep):
    case = rep['case']
    if 'deep' in case:
        r = deep_job(('deep', case['deep'], case['depth']))
        print(r['viol'] or 'ok')
        return 1 if r['viol'] else 0
    return e1.replay_case(rep, 'simple')
