"""Check bookkeeping: counters, violations, known findings, replays, evidence."""
import hashlib
import json
import os
import subprocess
import sys
import time

from . import runner

ROOT = os.path.dirname(os.path.dirname(os.path.abspath(__file__)))
EVIDENCE_DIR = os.environ.get('VERIF_EVIDENCE_DIR') or os.path.join(ROOT, 'evidence')
REPLAY_DIR = os.path.join(os.environ['VERIF_EVIDENCE_DIR'], 'replays') if os.environ.get('VERIF_EVIDENCE_DIR') else os.path.join(ROOT, 'replays')
FINDINGS = os.path.join(ROOT, 'known_findings.json')
REPO = os.environ.get('VERIF_REPO', '/repo')


def case_key(case):
    """Stable identifier of one concrete failing case (grammar text(s), entry, input...)."""
    blob = json.dumps(case, sort_keys=True, default=repr).encode()
    return hashlib.sha1(blob).hexdigest()[:16]


def jsonable(x):
    if isinstance(x, (str, int, float, bool)) or x is None:
        return x
    if isinstance(x, bytes):
        return {'bytes': x.decode('latin-1')}
    if isinstance(x, (list, tuple)):
        return [jsonable(y) for y in x]
    if isinstance(x, dict):
        return {str(k): jsonable(v) for k, v in x.items()}
    if isinstance(x, (set, frozenset)):
        return sorted(jsonable(y) for y in x)
    return repr(x)


def load_findings(prop):
    if not os.path.exists(FINDINGS):
        return []
    with open(FINDINGS) as f:
        data = json.load(f)
    return [e for e in data.get('findings', []) if e.get('property') == prop]


def repo_rev():
    try:
        rev = subprocess.run(['git', '-C', REPO, 'rev-parse', 'HEAD'], capture_output=True,
                             text=True, timeout=10).stdout.strip()
        dirty = bool(subprocess.run(['git', '-C', REPO, 'status', '--porcelain', '-uno'],
                                    capture_output=True, text=True, timeout=10).stdout.strip())
        return rev, dirty
    except Exception:
        return None, None


class Check:
    """One run of one property's check."""

    def __init__(self, prop, tier, seed, level='model_checking'):
        self.prop = prop
        self.tier = tier
        self.seed = seed
        self.level = level
        self.t0 = time.time()
        self.ctr = {}                 # summed counters
        self.sets = {}                # name -> set (distinct things)
        self.samples = []
        self.violations = []          # dicts: sig, key, case, expected, got
        self.viol_keys = {}           # key -> sig   (all, uncapped)
        self.sig_count = {}
        self._known = set()
        for e in load_findings(prop):
            if e.get('status') == 'open':
                self._known.update(e.get('cases', []))
        self.assumptions = []
        self.notes = {}
        self.caps = []                # caps that were hit
        self.harness_errors = []
        self.exhaustive = True
        self.rule = ''
        self.explanation = ''

    # -- accumulation ---------------------------------------------------------
    def add(self, name, n=1):
        self.ctr[name] = self.ctr.get(name, 0) + n

    def merge(self, res):
        """Merge a worker result dict (see e1.run_job)."""
        for k, v in res.get('ctr', {}).items():
            self.add(k, v)
        for k, v in res.get('sets', {}).items():
            self.sets.setdefault(k, set()).update(v)
        for v in res.get('viol', []):
            self.violation(v)
        for k, sig in res.get('viol_keys', []):
            self.viol_keys.setdefault(k, sig)
        s = res.get('sample')
        if s is not None and len(self.samples) < 6:
            self.samples.append(s)

    def violation(self, v):
        v.setdefault('key', case_key(v['case']))
        self.viol_keys.setdefault(v['key'], v.get('sig', ''))
        if v['key'] in self._known:
            return          # details are only kept for cases that are not recorded findings
        n = self.sig_count.get(v.get('sig', ''), 0)
        if n < 3 and len(self.violations) < 2000:
            self.sig_count[v.get('sig', '')] = n + 1
            self.violations.append(v)

    def on_result(self, idx, status, res):
        """Callback for runner.run_jobs."""
        if status == 'OK':
            self.merge(res)
        else:
            self.add('harness_' + status.lower())
            if len(self.harness_errors) < 5:
                self.harness_errors.append((idx, status, (res or '')[-600:] if isinstance(res, str) else ''))

    def explore(self, fn, jobs, init=None, chunk=8, job_deadline=60.0, time_cap=None, stop_on_violation=False):
        """Run all jobs; a time cap, if hit, is reported (exhaustive=False).  With stop_on_violation the
        exploration is abandoned as soon as a violation that is not a recorded finding has been seen
        (broken code may make the remaining executions arbitrarily slow; the verdict is already known)."""
        t_end = None if time_cap is None else time.time() + time_cap
        hit = {'cap': False}
        # development aid (tools/reverify_all.sh): abandon any check at its first new violation; never set by the
        # registered commands
        stop_on_violation = stop_on_violation or bool(os.environ.get('VERIF_FAST_FAIL'))

        def abort():
            if not stop_on_violation:
                return False
            if self._known is None:
                return bool(self.viol_keys)
            return any(k not in self._known for k in self.viol_keys)

        def stop():
            if t_end is not None and time.time() > t_end:
                hit['cap'] = True
                return True
            return False
        n = runner.run_jobs(fn, jobs, init=init, chunk=chunk, job_deadline=job_deadline,
                            on_result=self.on_result, stop=stop, abort=abort if stop_on_violation else None)
        self.add('jobs', n)
        if stop_on_violation and abort():
            self.exhaustive = False
            self.caps.append('exploration abandoned after the first violation (%d jobs done)' % n)
        if hit['cap']:
            self.exhaustive = False
            self.caps.append('time cap %ss hit after %d jobs' % (time_cap, n))
        return n

    # -- finish -----------------------------------------------------------------
    def finish(self, states=None, transitions=None, traces=None, evaluations=None,
               nontrivial=None, floor=None):
        wall = time.time() - self.t0
        findings = load_findings(self.prop)
        open_entries = [e for e in findings if e.get('status') == 'open']
        known_cases = {}
        for e in open_entries:
            for k in e.get('cases', []):
                known_cases[k] = e
        reproduced = {}
        new = []
        for k, sig in self.viol_keys.items():
            e = known_cases.get(k)
            if e is not None:
                reproduced.setdefault(e['id'], [e, 0])[1] += 1
            else:
                new.append(k)
        if os.environ.get('VERIF_DUMP_KEYS'):
            # development aid for drafting known_findings.json by hand (never read back at run time)
            with open(os.environ['VERIF_DUMP_KEYS'], 'w') as f:
                json.dump({k: self.viol_keys[k] for k in new}, f, indent=0, sort_keys=True)
        lines = []
        for fid, (e, n) in sorted(reproduced.items()):
            lines.append('KNOWN-FINDING: property=%s %s [%s; %d listed case(s) reproduced]'
                         % (self.prop, e.get('title', ''), fid, n))
        # replay files for new violations, one line per distinct signature (max 20)
        seen_sigs = set()
        newset = set(new)
        viol_lines = []
        os.makedirs(REPLAY_DIR, exist_ok=True)
        rev, dirty = repo_rev()
        for v in self.violations:
            if v['key'] not in newset:
                continue
            sig = v.get('sig', '')
            if sig in seen_sigs or len(viol_lines) >= 20:
                continue
            seen_sigs.add(sig)
            path = os.path.join(REPLAY_DIR, '%s-%s.json' % (self.prop, v['key']))
            with open(path, 'w') as f:
                json.dump(jsonable({'property': self.prop, 'sig': sig, 'key': v['key'],
                                    'case': v['case'], 'expected': v.get('expected'),
                                    'got': v.get('got'), 'snippet': v.get('snippet'),
                                    'repo_rev': rev, 'repo_dirty': dirty}), f, indent=1)
            viol_lines.append('VIOLATION property=%s replay=%s  # %s' % (self.prop, path, sig))
        if new and not viol_lines:
            # violations whose details were capped away: still report
            viol_lines.append('VIOLATION property=%s replay=%s  # %d further cases (details capped)'
                              % (self.prop, REPLAY_DIR, len(new)))
        broken = None
        if self.harness_errors:
            broken = 'harness errors: %r' % (self.harness_errors[:2],)
        if nontrivial is None:
            nontrivial = self.ctr.get('nontrivial', 0)
        if floor is not None and nontrivial < floor:
            broken = 'vacuity guard: %s non-trivial cases < floor %s' % (nontrivial, floor)

        cov = {
            'states': int(states if states is not None else self.ctr.get('states', 0)),
            'transitions': int(transitions if transitions is not None else self.ctr.get('transitions', 0)),
            'traces_validated_against_impl': int(traces if traces is not None else self.ctr.get('cases', 0)),
            'evaluations': int(evaluations if evaluations is not None else self.ctr.get('cases', 0)),
            'distinct_nontrivial': int(nontrivial if nontrivial is not None else self.ctr.get('nontrivial', 0)),
            'rule': self.rule,
            'samples': jsonable(self.samples[:6]) or ['(no sample recorded)'],
            'exhaustive': bool(self.exhaustive and not self.caps),
            'caps_hit': self.caps,
            'counters': {k: v for k, v in sorted(self.ctr.items())},
            'distinct': {k: len(v) for k, v in sorted(self.sets.items())},
            'known_finding_cases': sum(n for _, n in reproduced.values()),
            'new_violation_cases': len(new),
            'violation_signatures': sorted(seen_sigs)[:20],
            'explanation': self.explanation,
            'repo_rev': rev, 'repo_dirty': dirty,
        }
        cov.update(jsonable(self.notes))
        ev = {
            'property_id': self.prop, 'tier': self.tier, 'seed': int(self.seed),
            'level': self.level, 'coverage': cov, 'assumptions': self.assumptions,
            'wall_s': round(wall, 2), 'violations': len(new),
        }
        os.makedirs(EVIDENCE_DIR, exist_ok=True)
        tmp = os.path.join(EVIDENCE_DIR, '%s.json.tmp' % self.prop)
        with open(tmp, 'w') as f:
            json.dump(ev, f, indent=1)
        os.replace(tmp, os.path.join(EVIDENCE_DIR, '%s.json' % self.prop))
        for ln in lines:
            print(ln)
        for ln in viol_lines:
            print(ln)
        print('%s %s: cases=%d states=%d nontrivial=%d known=%d new=%d exhaustive=%s wall=%.1fs'
              % (self.prop, self.tier, cov['evaluations'], cov['states'], cov['distinct_nontrivial'],
                 cov['known_finding_cases'], len(new), cov['exhaustive'], wall))
        sys.stdout.flush()
        if new:
            return 1
        if broken:
            print('CHECK-BROKEN property=%s %s' % (self.prop, broken))
            return 2
        return 0
