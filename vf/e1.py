"""E1: the grammar x input explorer.  One job = one grammar (or chain) x a set of
entries x inputs x positions; every case is run on the reference model and on
the implementation and the canonical outcomes are compared."""
import itertools
import os
import sys

from . import impl, model, render
from .core import case_key
from .model import Spec, Model, IllFormed, FAIL, Counters, plain

sys.setrecursionlimit(10000)


def strings(sigma, n, lo=0):
    out = []
    for L in range(lo, n + 1):
        for t in itertools.product(sigma, repeat=L):
            out.append(''.join(t))
    return out


INPUT_SETS = {}
POST = {}       # name -> extra per-case oracle(job, text, pos, full, model result, impl outcome) -> reason | None


def input_set(name):
    """Named input sets, e.g. 'abA:4' = all strings over {a,b,A} of length 0..4;
    a '+' separated list of extra literal strings may follow after '|'."""
    r = INPUT_SETS.get(name)
    if r is None:
        base, _, extra = name.partition('|')
        sigma, _, n = base.rpartition(':')
        sigma = sigma.replace('\\n', '\n').replace('\\s', ' ').replace('\\r', '\r').replace('\\f', '\x0c')
        r = strings(sigma, int(n))
        if extra:
            r = r + [x.replace('\\n', '\n').replace('\\s', ' ') for x in extra.split('+')]
        INPUT_SETS[name] = r
    return r


def fresh(text):
    if isinstance(text, str):
        return ''.join(list(text))
    return bytes(bytearray(text))


def mk_specs(mods):
    return [Spec(list(m[0]), m[1], m[2], m[3], m[4], m[5], m[6], m[7]) for m in mods]


_uid = [0]


def unique_name(prefix='vfm'):
    _uid[0] += 1
    return '%s_%d_%d' % (prefix, os.getpid(), _uid[0])


def snippet(descs, entry, text, pos, full):
    lines = ['from sourcer import Grammar']
    for i, d in enumerate(descs):
        lines.append('g%d = Grammar(%r)' % (i, d))
    g = 'g%d' % (len(descs) - 1 if entry[1] is None else entry[1])
    f = '%s.parse' % g if entry[0] is None else '%s.%s.parse' % (g, entry[0])
    lines.append('print(%s(%r, %r, %r))' % (f, text, pos, full))
    return '\n'.join(lines)


def expected_simple(r):
    if r is FAIL:
        return ('FAIL',)
    return ('OK', plain(r[0]), r[1])


def kinds_in(e, acc):
    if isinstance(e, tuple) and e and isinstance(e[0], str):
        acc.add(e[0])
        for x in e[1:]:
            kinds_in(x, acc)
    elif isinstance(e, (list, tuple)):
        for x in e:
            kinds_in(x, acc)
    return acc


def run_job(job):
    specs = mk_specs(job['mods'])
    alt = job.get('alt')
    altf = (lambda kind, i: alt[i] if i < len(alt) else False) if alt else None
    layout = job.get('layout') or {}
    mode = job.get('mode', 'simple')
    spans = mode == 'spans' or job.get('spans', False)
    bytes_mode = specs[0].bytes_mode
    res = {'ctr': {}, 'sets': {}, 'viol': [], 'viol_keys': []}
    ctr = res['ctr']

    def bump(k, n=1):
        ctr[k] = ctr.get(k, 0) + n

    # --- build the implementation modules --------------------------------------
    names = []
    if job.get('named'):
        prev = None
        for sp in specs:
            sp.name = unique_name()
            sp.parent_name = prev
            prev = sp.name
            names.append(sp.name)
    if job.get('layouts'):
        # one layout per module of the chain
        descs = [render.spec(sp, altf, **lay) for sp, lay in zip(specs, job['layouts'])]
    else:
        descs = job.get('descs') or [render.spec(sp, altf, **layout) for sp in specs]
    mods = []
    tag = job.get('tag', '')
    try:
        for i, d in enumerate(descs):
            b = impl.build(d)
            if b[0] != 'OK':
                bump('compile_failures')
                case = {'descs': descs, 'what': 'Grammar()', 'module': i}
                sig = '%s COMPILE %s %s' % (tag, b[0], b[1] if len(b) > 1 else '')
                v = {'sig': sig.strip(), 'case': case, 'expected': 'a module',
                     'got': list(b), 'snippet': 'from sourcer import Grammar\nGrammar(%r)' % d}
                res['viol'].append(v)
                res['sample'] = None
                return res
            mods.append(b[1])
        # stable descriptions for case keys and replays: the per-process unique grammar names
        # are replaced by M0, M1, ...
        kdescs = descs
        for i, n in enumerate(names):
            kdescs = [d.replace(n, 'M%d' % i) for d in kdescs]
        job['_kdescs'] = kdescs
        return _run_cases(job, specs, descs, mods, res, bump, mode, spans, bytes_mode, tag)
    finally:
        for n in names:
            impl.uninstall(n)


def _run_cases(job, specs, descs, mods, res, bump, mode, spans, bytes_mode, tag):
    inputs = job['inputs']
    if isinstance(inputs, str):
        inputs = input_set(inputs)
    if bytes_mode:
        inputs = [t.encode('latin-1') if isinstance(t, str) else t for t in inputs]
    entries = job.get('entries') or [(None, None)]
    positions = job.get('positions', 'zero')
    fulls = job.get('fullparse', (True,))
    limit = job.get('time_limit', 0.3)
    post = POST.get(job.get('post'))
    counters = Counters()
    models = {}

    def model_for(mi):
        # parsing through module mi of a chain: the chain ends there
        m = models.get(mi)
        if m is None:
            m = models[mi] = Model(specs[:mi + 1], counters=counters, deviations=job.get('deviations', ()))
        return m
    outcomes = set()
    abandoned = False
    first_sample = None
    sigs_seen = {}
    for text in inputs:
        if abandoned:
            break
        for ent in entries:
            ename, through = ent[0], ent[1]
            eargs = tuple(ent[2]) if len(ent) > 2 else ()      # C.parse(*args)(text): parameterised class as entry
            mi = len(specs) - 1 if through is None else through
            mname = ename if ename is not None else specs[mi].start
            try:
                parse = impl.entry(mods[mi], ename)
                if eargs:
                    parse = parse(*eargs)
            except AttributeError as x:
                case = {'descs': descs, 'entry': list(ent), 'what': 'entry lookup'}
                res['viol'].append({'sig': '%s ENTRY-MISSING' % tag, 'case': case,
                                    'expected': 'entry point', 'got': str(x)})
                continue
            job['_parse'] = parse
            poss = range(len(text) + 1) if positions == 'all' else (0,)
            for pos in poss:
                # ---- model
                before = counters.restores
                try:
                    r = model_for(mi).parse(mname, text, pos, args=eargs)
                except IllFormed:
                    bump('skipped_illformed')
                    continue
                except RecursionError:
                    bump('skipped_illformed')
                    continue
                except Exception as x:
                    # inline Python of the test grammar raised (int('a'), len(None)...): such grammars
                    # are outside the properties ("grammars whose inline Python does not raise")
                    if not job.get('pyraise'):
                        raise
                    bump('skipped_inline_python_raises')
                    continue
                nontrivial = counters.restores > before
                for full in fulls:
                    # every call gets a fresh text object that is dropped afterwards, so that
                    # anything keyed on the identity of an earlier input becomes visible
                    text = fresh(text)
                    out = impl.run(parse, text, pos, full, spans=spans, time_limit=limit)
                    if out['kind'] == 'DIVERGES':
                        # not believed until re-run alone with 10x, then 100x the budget (a loaded machine must
                        # never turn into an alarm; a really diverging grammar is abandoned after this one case)
                        out = impl.run(parse, text, pos, full, spans=spans, time_limit=limit * 10)
                        if out['kind'] == 'DIVERGES':
                            out = impl.run(parse, text, pos, full, spans=spans, time_limit=max(30.0, limit * 100))
                    bump('cases')
                    if nontrivial:
                        bump('nontrivial')
                    ok, exp, got, why = compare(mode, r, out, text, pos, full, spans)
                    if ok and post is not None:
                        why = post(job, text, pos, full, r, out)
                        if why:
                            ok = False
                    outcomes.add(got[0] if got else None)
                    if first_sample is None:
                        first_sample = {'grammar': descs, 'entry': list(ent), 'text': text,
                                        'pos': pos, 'fullparse': full, 'model': exp,
                                        'implementation': got}
                    if not ok:
                        case = {'descs': job.get('_kdescs', descs), 'entry': list(ent), 'text': text, 'pos': pos,
                                'fullparse': full}
                        key = case_key(_j(case))
                        sig = ('%s %s' % (tag, why)).strip()
                        res['viol_keys'].append((key, sig))
                        if sigs_seen.get(sig, 0) < 2 and len(sigs_seen) < 6:
                            sigs_seen[sig] = sigs_seen.get(sig, 0) + 1
                            res['viol'].append({'sig': sig, 'key': key, 'case': _j(case),
                                                'expected': exp, 'got': got,
                                                'snippet': snippet(descs, ent, text, pos, full)})
                        if out['kind'] == 'DIVERGES':
                            abandoned = True
                            break
                if abandoned:
                    break
            if abandoned:
                break
    res['ctr']['states'] = res['ctr'].get('states', 0) + counters.states
    res['ctr']['transitions'] = res['ctr'].get('transitions', 0) + counters.transitions
    res['sets']['outcome_kinds'] = outcomes
    res['sample'] = first_sample
    return res


def _j(case):
    """bytes are not JSON: decode for keys / replay files."""
    t = case.get('text')
    if isinstance(t, bytes):
        case = dict(case)
        case['text'] = {'bytes': t.decode('latin-1')}
    return case


def compare(mode, r, out, text, pos, full, spans):
    """-> (ok, expected, got, why)"""
    k = out['kind']
    n = len(text)
    if mode == 'simple':
        exp = expected_simple(r)
        if k == 'RET':
            got = ('OK', out['value'], n)
        elif k == 'PARTIAL':
            got = ('OK', out['value'], out['index'])
        elif k == 'ERROR':
            got = ('FAIL',)
        elif k == 'EXC':
            got = ('EXC', out['type'], out['message'])
        else:
            got = ('DIVERGES',)
        if got == exp:
            return True, exp, got, ''
        return False, exp, got, why_simple(exp, got)
    # 'outcome' / 'spans': the three-outcome rule of C08 (with spans when asked)
    if r is FAIL:
        exp = ('ERROR',)
    else:
        v = plain(r[0], spans)
        if full and r[1] < n:
            exp = ('PARTIAL', v, r[1])
        else:
            exp = ('RET', v)
    if k == 'RET':
        got = ('RET', out['value'])
    elif k == 'PARTIAL':
        got = ('PARTIAL', out['value'], out['index'])
    elif k == 'ERROR':
        got = ('ERROR',)
    elif k == 'EXC':
        got = ('EXC', out['type'], out['message'])
    else:
        got = ('DIVERGES',)
    if spans:
        ok = got[0] == exp[0] and (len(exp) < 2 or (span_eq(exp[1], got[1], text) and exp[2:] == got[2:]))
    else:
        ok = got == exp
    if ok:
        return True, exp, got, ''
    if got[0] != exp[0]:
        why = '%s-instead-of-%s' % (got[0] if got[0] != 'EXC' else 'EXC:' + got[1], exp[0])
    elif len(exp) > 2 and exp[2:] != got[2:]:
        why = 'end-position'
    elif spans and span_eq(strip_spans(exp[1]), strip_spans(got[1]), text):
        why = 'span'
    else:
        why = 'value'
    return False, exp, got, why


def why_simple(exp, got):
    if got[0] == 'EXC':
        return 'EXC:%s' % got[1]
    if got[0] == 'DIVERGES':
        return 'DIVERGES'
    if exp[0] != got[0]:
        return '%s-instead-of-%s' % (got[0], exp[0])
    if exp[2] != got[2]:
        return 'end-position'
    return 'value'


def strip_spans(v):
    if isinstance(v, tuple):
        if v and v[0] == 'O':
            return ('O', v[1], tuple((f, strip_spans(x)) for f, x in v[2]))
        return tuple(strip_spans(x) for x in v)
    return v


def line_col(text, index):
    nl = '\n' if isinstance(text, str) else b'\n'
    line = 1 + text.count(nl, 0, index)
    last = text.rfind(nl, 0, index)
    return line, index - last


def span_eq(m, i, text):
    """Model value with (start, end) spans vs implementation value with SPAN tuples.
    An instance that consumed nothing carries no constraint on its span."""
    if isinstance(m, tuple) and isinstance(i, tuple):
        if m and i and m[0] == 'O' and i[0] == 'O':
            if m[1] != i[1] or len(m[2]) != len(i[2]):
                return False
            for (fm, vm), (fi, vi) in zip(m[2], i[2]):
                if fm != fi or not span_eq(vm, vi, text):
                    return False
            if len(m) < 4:
                return True
            sp = m[3]
            if sp is None or len(i) < 4:
                return True
            s, e = sp
            if e <= s:
                return True       # consumed nothing: unconstrained
            isp = i[3]
            if not isinstance(isp, tuple) or isp[0] != 'SPAN':
                return False
            _, si, ei, sl, sc, el, ec = isp
            if si != s or ei != e - 1:
                return False
            nl = '\n' if isinstance(text, str) else 10
            if text[s] != nl and (sl, sc) != line_col(text, s):
                return False
            if text[e - 1] != nl and (el, ec) != line_col(text, e - 1):
                return False
            return True
        if len(m) != len(i):
            return False
        return all(span_eq(a, b, text) for a, b in zip(m, i))
    return m == i and type(m) == type(i)


def replay_case(rep, mode=None):
    """Re-run one stored case on the implementation only and compare with the
    model outcome recorded in the replay file.  Returns 0 if they now agree."""
    case = rep['case']
    descs = case['descs']
    mods = []
    for d in descs:
        b = impl.build(d)
        if b[0] != 'OK':
            print('Grammar() ->', b)
            return 1
        mods.append(b[1])
    if 'text' not in case:
        print('Grammar() now succeeds')
        return 0
    text = case['text']
    if isinstance(text, dict):
        text = text['bytes'].encode('latin-1')
    ent = case['entry']
    mi = len(mods) - 1 if ent[1] is None else ent[1]
    parse = impl.entry(mods[mi], ent[0])
    spans = any('SPAN' in repr(x) for x in (rep.get('got'), rep.get('expected')))
    out = impl.run(parse, text, case['pos'], case['fullparse'], spans=spans, time_limit=5.0)
    print('implementation:', out)
    print('model expected:', rep.get('expected'))
    from .core import jsonable
    exp = rep.get('expected')
    k = out['kind']
    n = len(text)
    cands = []
    if k == 'RET':
        cands = [('OK', out['value'], n), ('RET', out['value'])]
    elif k == 'PARTIAL':
        cands = [('OK', out['value'], out['index']), ('PARTIAL', out['value'], out['index'])]
    elif k == 'ERROR':
        cands = [('FAIL',), ('ERROR',)]
    same = any(jsonable(c) == exp for c in cands)
    print('AGREE' if same else 'DISAGREE')
    return 0 if same else 1


# --- C09 by-product oracle: error locations -------------------------------------
def literal_tokens(specs):
    toks = []

    def walk(e):
        if isinstance(e, tuple) and e and isinstance(e[0], str):
            if e[0] in ('str', 'stri', 're', 'rei', 'byte'):
                toks.append(e)
                return
            for x in e[1:]:
                walk(x)
        elif isinstance(e, (list, tuple)):
            for x in e:
                walk(x)
    for sp in specs:
        for _, d in sp.rules:
            walk(d[2])
        for p in sp.ignores:
            walk(p)
    return toks


def reachable_max(tokens, text, pos):
    """farthest position reachable from pos by chaining matches of the grammar's literals"""
    import re as _re
    seen = {pos}
    todo = [pos]
    is_b = isinstance(text, bytes)
    while todo:
        p = todo.pop()
        for t in tokens:
            k = t[0]
            q = None
            if k == 'str':
                if text.startswith(t[1], p):
                    q = p + len(t[1])
            elif k == 'byte':
                if p < len(text) and text[p] == t[1]:
                    q = p + 1
            else:
                if k == 'stri':
                    pat, fl = _re.escape(t[1]), _re.I
                else:
                    pat, fl = t[1], (_re.I if k == 'rei' else 0)
                m = model._rx(pat, fl, is_b).match(text, p)
                if m:
                    q = m.end()
            if q is not None and q not in seen:
                seen.add(q)
                todo.append(q)
    return max(seen)


def errpos_check(job, text, pos, full, r, out):
    k = out['kind']
    if k not in ('ERROR', 'PARTIAL'):
        return None
    idx, line, col = out['index'], out['line'], out['column']
    n = len(text)
    if not isinstance(idx, int):
        return 'errpos-not-int'
    lookbehind = job.get('lookbehind', False)
    lo = 0 if lookbehind else pos
    if not (lo <= idx <= n):
        return 'errpos-out-of-range'
    toks = job.get('_tokens')
    if toks is None:
        toks = job['_tokens'] = literal_tokens(mk_specs(job['mods']))
    if not lookbehind and idx > reachable_max(toks, text, pos):
        return 'errpos-beyond-first-unmatchable-character'
    if k == 'PARTIAL' and idx >= n:
        return 'errpos-partial-at-end'
    if idx == n:
        if line is not None or col is not None:
            return 'errpos-end-of-input-not-None'
        return None
    if line is None or col is None:
        return 'errpos-None-inside-input'
    if isinstance(text, bytes):
        if (line, col) != (1, idx + 1):
            return 'errpos-bytes-line-column'
        return None
    if text[idx] != '\n' and (line, col) != line_col(text, idx):
        return 'errpos-line-column'
    return None


POST['errpos'] = errpos_check
