"""Setup / self-check (MANIFEST.setup_cmd): nothing is built; this verifies that the implementation under test is
importable from the working tree and that the reference model is sane:

 (a) documented examples (README, docs/expressions/separated_list.md) hand-translated to the AST evaluate to the
     documented results;
 (b) memoised and un-memoised evaluation of the model agree (all expressions with <=1 operator x inputs <=3);
 (c) the operator-table clause (flat scan + Pratt builder) selects exactly the tree that a second, declarative
     definition selects (enumerate every unary/binary tree over the token run, keep those without precedence /
     associativity conflict, longest group prefix) on all tables of three rows x all token strings up to 5 tokens.
"""
import itertools
import sys
import time


def doc_examples():
    from .model import Spec, Model, plain
    A = ('str', 'a')
    cases = []
    # README: sequences, choice, option, repetition
    sp = Spec([('start', ('rule', None, ('seq', A, ('opt', ('str', 'b')))))])
    cases += [(sp, 'ab', (['a', 'b'], 2)), (sp, 'a', (['a', None], 1)), (sp, 'b', None)]
    # docs/expressions/separated_list.md:  e // s   and   e /? s
    word = ('re', '[a-z]+')
    sp = Spec([('start', ('rule', None, ('sep', word, ('str', ','), True, False, True, False)))])
    cases += [(sp, 'a,b', (['a', 'b'], 3)), (sp, 'a,b,', (['a', 'b'], 3)), (sp, '', ([], 0))]
    sp = Spec([('start', ('rule', None, ('sep', word, ('str', ','), True, True, True, False)))])
    cases += [(sp, 'a,b,', (['a', 'b'], 4))]
    sp = Spec([('start', ('rule', None, ('sep', word, ('str', ','), False, False, True, False)))])
    cases += [(sp, 'a,b', (['a', ',', 'b'], 3))]
    # README: ignore + class
    sp = Spec([('start', ('rule', None, ('star', ('ref', 'W')))), ('W', ('class', None, [('w', False, word)]))], ignores=[('re', '\\s+')])
    m = Model(sp)
    r = m.parse('start', ' ab  cd ')
    assert r[1] == 8 and [o.w for o in r[0]] == ['ab', 'cd'] and r[0][0].span == (1, 5), r
    # README arithmetic: precedence and associativity
    num = ('apply', ('re', '\\d+'), ('py', 'int'))
    table = (('mixfix', (('left', ('right', ('str', '('), ('ref', 'E')), ('str', ')')),)), ('prefix', (('str', '-'),)),
             ('right', (('str', '^'),)), ('left', (('str', '*'), ('str', '/'))), ('left', (('str', '+'), ('str', '-'))))
    sp = Spec([('E', ('rule', None, ('optable', num, table))), ('start', ('rule', None, ('ref', 'E')))])

    def show(t):
        from .model import Obj
        if isinstance(t, Obj):
            if t.cls == 'Infix':
                return '(%s%s%s)' % (show(t.left), t.operator, show(t.right))
            if t.cls == 'Prefix':
                return '(%s%s)' % (t.operator, show(t.right))
            return '(%s%s)' % (show(t.left), t.operator)
        return str(t)
    for text, want in (('1+2*3', '(1+(2*3))'), ('2^3^2', '(2^(3^2))'), ('1-2-3', '((1-2)-3)'), ('-2^2', '((-2)^2)'),
                       ('(1+2)*3', '((1+2)*3)'), ('1+', '1'), ('--1', '(-(-1))')):
        r = Model(sp).parse('start', text)
        assert r is not None and show(r[0]) == want, (text, r and show(r[0]))
    for sp, text, want in cases:
        r = Model(sp).parse('start', text)
        assert (r if r is None else (r[0], r[1])) == want, (text, r, want)
    return len(cases) + 8


def memo_agreement():
    from .model import Spec, Model, IllFormed, plain
    from .props import c01
    from . import e1
    n = 0
    inputs = e1.strings('abA', 3)
    for k in range(0, 2):
        for e in c01.gen(k, c01.LEAVES):
            if not c01.wellformed(e, c01.AUXD):
                continue
            sp = Spec([('start', ('rule', None, e))] + c01.AUX)
            for t in inputs:
                try:
                    a = Model(sp).parse('start', t)
                    b = Model(sp, memoize=False).parse('start', t)
                except IllFormed:
                    continue
                n += 1
                assert (a is None) == (b is None) and (a is None or (plain(a[0]), a[1]) == (plain(b[0]), b[1])), (e, t)
    return n


# --- (c) declarative operator-table semantics ---------------------------------------------------------
def _trees(toks, i, j, memo):
    key = (i, j)
    if key in memo:
        return memo[key]
    out = []
    if j - i == 1 and toks[i][0] == 'opd':
        out.append(('o',))
    if j - i >= 2:
        if toks[i][0] == 'pre':
            for r in _trees(toks, i + 1, j, memo):
                out.append(('P', toks[i][1], r))
        if toks[j - 1][0] == 'post':
            for l in _trees(toks, i, j - 1, memo):
                out.append(('Q', l, toks[j - 1][1]))
        for k in range(i + 1, j - 1):
            if toks[k][0] == 'inf':
                for l in _trees(toks, i, k, memo):
                    for r in _trees(toks, k + 1, j, memo):
                        out.append(('I', l, toks[k][1], r, toks[k][2]))
    memo[key] = out
    return out


def _rexp(t):
    if t[0] == 'I':
        return [(t[2], t[4])] + _rexp(t[3])
    if t[0] == 'P':
        return [(t[1], None)] + _rexp(t[2])
    return []


def _lexp(t):
    if t[0] == 'I':
        return [(t[2], t[4])] + _lexp(t[1])
    if t[0] == 'Q':
        return [(t[2], None)] + _lexp(t[1])
    return []


def _valid(t):
    if t[0] == 'o':
        return True
    if t[0] == 'I':
        L, A = t[2], t[4]
        if not _valid(t[1]) or not _valid(t[3]):
            return False
        if any(not (l < L or (l == L and A == 'left')) for l, a in _rexp(t[1])):
            return False
        if any(not (l < L or (l == L and A == 'right')) for l, a in _lexp(t[3])):
            return False
        return True
    if t[0] == 'P':
        return _valid(t[2]) and all(l < t[1] for l, a in _lexp(t[2]))
    return _valid(t[1]) and all(l < t[2] for l, a in _rexp(t[1]))


def _shape(v):
    from .model import Obj
    if isinstance(v, Obj):
        if v.cls == 'Infix':
            return ('I', _shape(v.left), v.operator, _shape(v.right))
        if v.cls == 'Prefix':
            return ('P', v.operator, _shape(v.right))
        return ('Q', _shape(v.left), v.operator)
    return ('o',)


def _strip(t, sym):
    if t[0] == 'I':
        return ('I', _strip(t[1], sym), sym[t[2]], _strip(t[3], sym))
    if t[0] == 'P':
        return ('P', sym[t[1]], _strip(t[2], sym))
    if t[0] == 'Q':
        return ('Q', _strip(t[1], sym), sym[t[2]])
    return t


def optable_agreement(maxlen=5):
    from .model import Spec, Model
    from . import e1
    kinds = ['left', 'right', 'infix', 'prefix', 'postfix']
    syms = 'pqr'
    inputs = e1.strings('1pqr', maxlen)
    n = 0
    for table in itertools.product(kinds, repeat=3):
        rows = tuple((k, (('str', syms[i]),)) for i, k in enumerate(table))
        sp = Spec([('start', ('rule', None, ('optable', ('str', '1'), rows)))])
        kind_of = {syms[i]: (k, i) for i, k in enumerate(table)}
        for text in inputs:
            r = Model(sp).parse('start', text)
            # flat scan into groups  P* O Q* (I P* O Q*)*
            groups = []
            p = 0
            pending = None
            while True:
                q = p
                pre = []
                while q < len(text) and text[q] in kind_of and kind_of[text[q]][0] == 'prefix':
                    pre.append(('pre', kind_of[text[q]][1]))
                    q += 1
                if q >= len(text) or text[q] != '1':
                    break
                q += 1
                post = []
                while q < len(text) and text[q] in kind_of and kind_of[text[q]][0] == 'postfix':
                    post.append(('post', kind_of[text[q]][1]))
                    q += 1
                groups.append((pending, pre, post, q))
                p = q
                if p < len(text) and text[p] in kind_of and kind_of[text[p]][0] in ('left', 'right', 'infix'):
                    pending = ('inf', kind_of[text[p]][1], kind_of[text[p]][0])
                    p += 1
                else:
                    break
            want = None
            for k in range(len(groups), 0, -1):
                toks = []
                for pend, pre, post, end in groups[:k]:
                    if pend:
                        toks.append(pend)
                    toks += pre + [('opd',)] + post
                vs = [t for t in _trees(toks, 0, len(toks), {}) if _valid(t)]
                if vs:
                    assert len(vs) == 1, (table, text, vs)
                    want = (_strip(vs[0], syms), groups[k - 1][3])
                    break
            got = None if r is None else (_shape(r[0]), r[1])
            assert got == want, (table, text, got, want)
            n += 1
    return n


def main():
    t0 = time.time()
    from . import impl
    s = impl.load()
    print('implementation under test:', s.__file__)
    import signal
    from . import runner
    signal.signal(signal.SIGALRM, runner._alarm)
    b = impl.build('start = "a"')
    assert b[0] == 'OK', b
    print('(a) documented examples:', doc_examples())
    print('(b) memoised == un-memoised model runs:', memo_agreement())
    print('(c) operator tables, Pratt builder == declarative tree filter on runs:', optable_agreement())
    print('selftest ok in %.1fs' % (time.time() - t0))
    return 0


if __name__ == '__main__':
    sys.exit(main())
