"""Setup / self-check: the reference model must reproduce documented examples and
memoised == un-memoised evaluation; the implementation must be importable."""
import sys


def main():
    from . import impl
    impl.load()
    from .model import Spec, Model, plain
    sp = Spec([('start', ('rule', None, ('seq', ('str', 'a'), ('opt', ('str', 'b')))))])
    assert Model(sp).parse('start', 'ab') == (['a', 'b'], 2)
    assert Model(sp).parse('start', 'a') == (['a', None], 1)
    assert Model(sp).parse('start', 'b') is None
    print('selftest ok')
    return 0


if __name__ == '__main__':
    sys.exit(main())
