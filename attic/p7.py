import time, sys, types, importlib
import sourcer
from sourcer import Grammar
desc = open('/repo/grammar.txt').read()
t=time.time()
g1 = Grammar(desc, include_source=True)
print('compile grammar.txt', time.time()-t)
shipped = open('/repo/sourcer/parser.py').read()
hdr, rest = shipped.split('\n',1)
print(repr(hdr))
src1 = g1._source_code
print('gen1 == shipped body:', src1 == rest, len(src1), len(rest))
if src1 != rest:
    import difflib
    d = list(difflib.unified_diff(rest.splitlines(), src1.splitlines(), lineterm='', n=0))
    print(len(d)); print('\n'.join(d[:60]))
# accepts itself
r = g1.parse(desc)
import sourcer.parser as p0
r0 = p0.parse(desc)
print('self-parse equal reprs:', repr(r)==repr(r0))
