# Throwaway prototype C20: rename each role to each candidate identifier; compare with baseline
import sys, tokenize, io, keyword, builtins, itertools, collections, signal, os, time
from multiprocessing import Pool
BASE = r'''
ignore /~+/
start = Item*
Item = Pair | Wd | Tm("x") | Ex
Tm(prm) = let lv = prm in [`lv`, prm, Expect(prm)?]
class Wd { wf: /[ab]+/ }
class Pair { kf: Wd << ":"; let sf: "="?; vf: Wd }
Ex = "1" >> (Nm between { left: "+" })
Nm = /[0-9]/ |> `int`
'''
ROLES = {'rule':'Item','class':'Wd','field':'kf','letfield':'sf','param':'prm','letvar':'lv','template':'Tm','rule2':'Nm'}
API = {'parse','Infix','Prefix','Postfix','ParsedObject','ParsingRule','InputError','ParseError','PartialParseError','visit','traverse','transform'}
def rename(desc, old, new):
    import re
    return re.sub(r'(?<![A-Za-z0-9_])%s(?![A-Za-z0-9_])'%old, new, desc)
def inputs():
    S='ab:1+x'
    for L in range(0,4):
        for t in itertools.product(S,repeat=L): yield ''.join(t)
    for t in ['a:b','a:=b','1+2','12+3','xx','a:bxx1','ab:ba1+1']: yield t
INP=list(inputs())
def canon(g, v, mp):
    if isinstance(v,list): return [canon(g,x,mp) for x in v]
    if isinstance(v,tuple): return tuple(canon(g,x,mp) for x in v)
    if isinstance(v,g.ParsedObject):
        sp=v._metadata.position_info
        return (mp.get(type(v).__name__,type(v).__name__), tuple((mp.get(f,f),canon(g,getattr(v,f),mp)) for f in v._fields), ((sp.start.index,sp.end.index) if hasattr(sp,'start') else ('RAW',sp)) if sp else None)
    if type(v).__name__=='_StringLiteral': return str(v)
    return v
class Timeout(Exception): pass
def _alarm(*a): raise Timeout()
def outcomes(desc, mp):
    from sourcer import Grammar
    signal.signal(signal.SIGALRM,_alarm)
    signal.setitimer(signal.ITIMER_REAL,10.0)
    try: g=Grammar(desc)
    except Timeout: return ('COMPILE','TIMEOUT','')
    except Exception as e: return ('COMPILE',type(e).__name__,str(e)[:70])
    finally: signal.setitimer(signal.ITIMER_REAL,0)
    out=[]
    for t in INP:
        signal.setitimer(signal.ITIMER_REAL,0.3)
        try:
            try:
                r=g.parse(t); o=('OK',canon(g,r,mp),len(t))
                # runtime api
                api=(len(list(g.visit(r))), len(list(g.traverse(r))), canon(g,g.transform(r,lambda n:n),mp)==canon(g,r,mp))
                o=o+(api,)
            except g.PartialParseError as x:
                o=('PARTIAL',canon(g,x.partial_result,mp),x.last_position.index)
            except g.ParseError as x: o=('FAIL',x.position.index)
            except Timeout: o=('TIMEOUT',)
            except Exception as x: o=('EXC',type(x).__name__,str(x)[:50])
        finally: signal.setitimer(signal.ITIMER_REAL,0)
        out.append(o)
        if o[0]=='TIMEOUT': break
    return out
def job(args):
    role,old,new=args
    desc=rename(BASE,old,new)
    res=outcomes(desc,{new:old})
    return res
if __name__=='__main__':
    from sourcer import Grammar
    g=Grammar(BASE,include_source=True)
    names=set()
    for tok in tokenize.generate_tokens(io.StringIO(g._source_code).readline):
        if tok.type==tokenize.NAME: names.add(tok.string)
    import sourcer.expressions as ex
    names |= {n for n in dir(ex) if n[0].isupper()}
    used=set(ROLES.values())|{'start','Item','Pair','Wd','Tm','Ex','Nm','kf','sf','vf','wf','prm','lv'}
    pool=sorted(n for n in names if not n.startswith('_') and not keyword.iskeyword(n) and n not in API and n not in used and n not in ('True','False','None'))
    print('pool',len(pool))
    base=outcomes(BASE,{})
    assert not isinstance(base,tuple), base
    print('baseline distinct outcomes',len({repr(o) for o in base}), 'ok', sum(1 for o in base if o[0]=='OK'))
    jobs=[(role,old,new) for role,old in ROLES.items() for new in pool]
    t0=time.time()
    with Pool(16) as p: res=p.map(job,jobs,chunksize=4)
    print('jobs',len(jobs),'time',time.time()-t0)
    bad=collections.defaultdict(list)
    for (role,old,new),r in zip(jobs,res):
        if r!=base:
            kind = r[:2] if isinstance(r,tuple) else 'DIFF'
            bad[role].append((new, kind if kind!='DIFF' else next((a[0]+'/'+b[0]+(':'+str(b[1]) if b[0]=='EXC' else '')) for a,b in zip(base,r) if a!=b)))
    for role,l in bad.items():
        print(role,len(l)); print('   ',l[:60])
