from sourcer import Grammar
def run(g, t, rule=None, **kw):
    try:
        r = (g if rule is None else getattr(g, rule)).parse(t, **kw)
        return ('OK', r, len(t))
    except g.PartialParseError as e:
        return ('PARTIAL', e.partial_result, e.last_position.index)
    except g.ParseError as e:
        return ('FAIL', e.position.index)
    except Exception as e:
        return ('EXC', type(e).__name__, str(e)[:100])
def G(desc, **kw):
    try:
        return Grammar(desc, **kw)
    except Exception as e:
        print('  COMPILE EXC', type(e).__name__, str(e)[:150]); return None
def show(desc, texts, rule=None, **kw):
    print('---', desc.strip().replace('\n',' ; ')[:200])
    g = G(desc)
    if g is None: return
    for t in texts: print('   ', repr(t), run(g,t,rule,**kw))
# Sep variants
show('start = Sep("a", ",", discard_separators=False)', ['a,a', 'a,a,', 'a,', '', ','])
show('start = Sep("a", ",", discard_separators=False, allow_trailer=True)', ['a,a', 'a,a,', 'a,', '', ','])
show('start = Sep("a", ",", allow_trailer=True, require_separator=True)', ['a', 'a,', 'a,a', ''])
show('start = Sep("a", ",", allow_trailer=True, require_separator=True, allow_empty=False)', ['a', 'a,', 'a,a', ''])
show('start = Sep(["a","b"], [",",","]) << "a,"?', ['ab,,ab', 'ab,,a', 'ab,ab', 'ab,,'])
show('start = ("a" // ",") | "a,b"', ['a,b'])
show('start = Sep("a", ",", allow_empty=False) | ",x"', [',x','a'])
# named mode with compound arg
show('grammar nm1\nstart = T("a" | "b")\nT(x) = [x, x]', ['ab','ba','a'])
show('start = T("a" | "b")\nT(x) = [x, x]', ['ab','ba','a'])
show('start = let w = /[ab]/ in T(w)\nT(x) = [`x`, "c"]', ['ac','bc'])
# value-arg earlier results as parser? and Str arg used as value and parser
show('start = T("a")\nT(x) = [x, `x`, `type(x).__name__`]', ['a'])
# where / apply
show('start = /\\d/ |> `int` where `lambda v: v > 3`', ['5','2'])
show('start = `str.upper` <| /[a-z]+/', ['abc'])
