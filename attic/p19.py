from sourcer import Grammar
for depth in (3, 25):
    s = 'start = let v = /[ab]/ in ' + '['*depth + '`v`' + ']'*depth
    try: print(depth, str(Grammar(s).parse('a'))[:20])
    except Exception as e: print(depth, type(e).__name__, e)
    s = 'start = let n = /\\d/ |> `int` in ' + '['*depth + '"a"{n}' + ']'*depth
    try: print(depth, str(Grammar(s).parse('2aa'))[-30:])
    except Exception as e: print(depth, type(e).__name__, e)
