import time, sys, tokenize, io, builtins, keyword, resource
from sourcer import Grammar
# C17 deep recursion timing
for desc,mk in [
  ('start = ["(", start?, ")"]', lambda d: '('*d+')'*d),
  ('start = T("(")\nT(o) = [o, T(o)?, ")"]', lambda d: '('*d+')'*d),
  ('class P { o: "("; inner: P?; c: ")" }', lambda d: '('*d+')'*d),
  ('start = E\nE = "1" between { mixfix: "(" >> E << ")" \n left: "+" }', lambda d: '('*d+'1'+')'*d),
]:
    g=Grammar(desc)
    for d in (1000,10000,100000):
        t0=time.time()
        try:
            r=g.parse(mk(d)); ok='ok'
        except Exception as e:
            ok=type(e).__name__+':'+str(e)[:60]
        print(desc.split('\n')[0][:30], d, ok, round(time.time()-t0,2), 'maxrss MB', resource.getrusage(resource.RUSAGE_SELF).ru_maxrss//1024)
# C20 pool size
g=Grammar(r'''
    ignore /\s+/
    start = Item*
    Item = Pair | W | T("x")
    T(p) = let v = p in [`v`, p]
    class W { w: /[a-z]+/ }
    class Pair { k: W << ":"; let sep: "="?; v: W }
    E = W between { left: "+" }
''', include_source=True)
names=set()
for tok in tokenize.generate_tokens(io.StringIO(g._source_code).readline):
    if tok.type==tokenize.NAME: names.add(tok.string)
pool=[n for n in names if not n.startswith('_') and not keyword.iskeyword(n)]
print(len(names), len(pool), sorted(pool)[:80])
print('builtins used', sorted(n for n in pool if hasattr(builtins,n)))
