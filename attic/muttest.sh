#!/bin/bash
# usage: muttest.sh <name> <python-edit-script>
set -e
rm -rf /tmp/scratch && mkdir -p /tmp/scratch && (cd /repo && git archive HEAD | tar -x -C /tmp/scratch)
cd /tmp/scratch && /venv/bin/python -c "$2"
echo "== $1: repo tests"
PYTHONPATH=/tmp/scratch PYTHONDONTWRITEBYTECODE=1 /venv/bin/python -m pytest -q -p no:cacheprovider 2>&1 | tail -1
echo "== $1: prototype <=2 ops small alphabet"
cd /tmp/probe && PYTHONPATH=/tmp/scratch SMALL=1 SAFE_T=300 ./safe.sh proto.py 2 2>&1 | grep -E "time|Counter|DIFF" | head -4
rm -rf /tmp/scratch
