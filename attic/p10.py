# more probes: C04 skip semantics details, C07 tick approach, C17 thresholds
from sourcer import Grammar
def run(g, t, rule=None, **kw):
    try:
        r = (g if rule is None else getattr(g, rule)).parse(t, **kw)
        return ('OK', r, len(t))
    except g.PartialParseError as e:
        return ('PARTIAL', e.partial_result, e.last_position.index)
    except g.ParseError as e:
        return ('FAIL', e.position.index)
    except Exception as e:
        return ('EXC', type(e).__name__, str(e)[:100])
# C07 ticks
log=[]
g = Grammar(r'''
    ```
    LOG = []
    def tick(name):
        def f(rest):
            LOG.append((name, rest))
            return rest
        return f
    ```
    start = (A >> "x") | (A >> "y") | [Expect(A), A]
    A = Expect(/(?s).*/ |> `tick("A")`) >> B
    B = Expect(/(?s).*/ |> `tick("B")`) >> ["a", "b"]
''')
for t in ['abx','aby','ab','a']:
    g.LOG.clear()
    r = run(g,t)
    print(repr(t), r, [(n,len(t)-len(rest)) for n,rest in g.LOG])
r = g.parse('ab', fullparse=False)
print('identity', r[0] is r[1])
# C17 thresholds
for inner, extra in [('"x"',''), ('X','\nX = "x"')]:
    okd=[]; badd=[]
    for depth in range(1,40):
        s = 'start = ' + '['*depth + inner + ']'*depth + extra
        try:
            gg = Grammar(s); gg.parse('x'); okd.append(depth)
        except Exception as e:
            badd.append((depth,type(e).__name__))
    print(inner, 'ok', okd, 'bad', badd[:5], '...')
