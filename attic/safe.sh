#!/bin/bash
# usage: safe.sh script.py [args]  -- 3GB address space, 60s wall
ulimit -v 3000000
exec timeout -k 2 ${SAFE_T:-60} /venv/bin/python "$@"
