from sourcer import Grammar
g = Grammar(r'''
    start = "a"{2} | "ab"
''', include_source=True)
src = g._source_code
i = src.index('def _try_start')
print(src[i:i+3000])
for t in ['ab','aa','a','abc','']:
    try:
        print(repr(t), g.parse(t))
    except g.InputError as e:
        print(repr(t), type(e).__name__, getattr(e,'position',None), getattr(e,'last_position',None), getattr(e,'partial_result',None))
