import sys, signal, time
import proto
from proto import *
signal.signal(signal.SIGALRM,proto._alarm)
exprs=[e for n in range(2) for e in gen(n) if wellformed(e)]
print(len(exprs))
t0=time.time()
for i,e in enumerate(exprs):
    signal.setitimer(signal.ITIMER_REAL, 5.0)
    try:
        r=check(e)
    except proto.Timeout:
        print('TIMEOUT in check (compile?)', render(e)); continue
    finally:
        signal.setitimer(signal.ITIMER_REAL, 0)
    if r: print(i, r[0])
print('done', time.time()-t0)
