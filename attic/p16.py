from sourcer import Grammar
g = Grammar('start = T("a")\nT(p) = U([p, "c"])\nU(q) = [q, q]', include_source=True)
s=g._source_code
i=s.index('def _try_T'); print(s[i:i+900])
i=s.index('def _parse_function'); print(s[i:i+700])
print(g.parse('acac'))
g = Grammar('grammar nmx\nstart = T("a")\nT(p) = U([p, "c"])\nU(q) = [q, q]', include_source=True)
s=g._source_code
i=s.index('def _try_T'); print(s[i:i+900])
print(g.parse('acac'))
g = Grammar('grammar nmy\nstart = T("a", "b")\nT(p, r) = U([p, r, "c"])\nU(q) = [q, q]', include_source=True)
print(g.parse('abcabc'))
g = Grammar('start = T("a", "b")\nT(p, r) = U([p, r, "c"])\nU(q) = [q, q]', include_source=True)
print(g.parse('abcabc'))
