from sourcer import Grammar
import copy, pickle
def tryit(label, f):
    try:
        r = f()
        print(label, '->', repr(r)[:400])
    except BaseException as e:
        print(label, 'RAISED', type(e).__name__, str(e)[:200].replace('\n','\\n'))
g = Grammar(r'''
    ignore /\s+/
    start = Item*
    Item = Pair | W
    class W { w: /[a-z]+/ }
    class Pair { k: W << ":"; v: W }
''')
r = g.parse('  ab : c  d\n e ')
for o in g.visit(r):
    pi=o._metadata.position_info
    print(type(o).__name__, o, pi.start, pi.end)
# pos offset
tryit('pos=2', lambda: g.parse('  ab : c  d\n e ', pos=2))
tryit('pos=3 W', lambda: (lambda o:(o,o._metadata.position_info))(g.W.parse('  ab : c', pos=3, fullparse=False)))
# nested parse embedding
g2 = Grammar(r'''
    ```
    def sub(s):
        return W.parse(s)
    ```
    class W { w: /[a-z]+/ }
    start = /[a-z]+/ |> `sub`
''')
tryit('nested embed', lambda: g2.parse('abc'))
# traverse with repeated None
g3 = Grammar(r'''
    class P { a: "a"?; b: "b"?; c: "c"? }
''')
o = g3.P.parse('c')
tryit('traverse', lambda: [(t.field, t.child, t.is_finished) for t in g3.traverse(o)])
o2 = g3.P(a=None,b=[None,None],c=(1,1))
tryit('traverse2', lambda: [(t.field, t.child, t.is_finished) for t in g3.traverse(o2)])
# hash with list
tryit('hash', lambda: (hash(g3.P([1],{'a':[2]},None)) == hash(g3.P([1],{'a':[2]},None))))
tryit('pickle unnamed', lambda: pickle.loads(pickle.dumps(o)))
gn = Grammar('grammar pkl_g\nclass P { a: "a"?; b: "b"? }')
on = gn.P.parse('ab')
tryit('pickle named', lambda: pickle.loads(pickle.dumps(on)))
tryit('repr-eval', lambda: eval(repr(on), vars(gn)) == on)
tryit('replace', lambda: (on._replace(a='z'), on, on._replace(a='z')._metadata.position_info))
# transform
def cb(n): return n
tryit('transform id', lambda: (g.transform(r, cb) == r, g.transform(r, cb)[0]._metadata.position_info))
