# Throwaway prototype C04/C08/C10: ignore + spans + pos/fullparse, reusing proto5's Model
import re, sys, itertools, signal, collections, time, os
from multiprocessing import Pool
import proto5
from proto5 import Model, Obj, R, FAIL, IllFormed, inputs

class IModel(Model):
    def __init__(s, rules, ignores, startname, skipflag=True):
        super().__init__(rules)
        s.ignores=ignores; s.startname=startname; s.skipflag=bool(ignores)
    def skip(s,pos):
        while True:
            for pat in s.ignores:
                m=re.compile(pat).match(s.text,pos)
                if m and m.end()>pos: pos=m.end(); break
            else: return pos
    def ev(s,e,pos,env):
        r=super().ev(e,pos,env)
        if r and e[0] in('str','re') and s.skipflag and not (e[0]=='str' and e[1]==''):
            return (r[0],s.skip(r[1]))
        return r
    def call(s,name,args,kwargs,pos):
        if name==s.startname and s.skipflag:
            # leading skip belongs to the start rule's body (first member for classes)
            key=('__start',pos)
            d=s.rules[name]
            if d[0]=='rule':
                p=s.skip(pos)
                r=s.ev(d[2],p,{})
                return r
            else:
                # class: span starts at pos (before skip); first member parsed after skip
                p=s.skip(pos); fields=[]; env={}; q=p
                for (mname,omitted,expr) in d[2]:
                    r=s.ev(expr,q,env)
                    if not r: return FAIL
                    q=r[1]
                    if mname:
                        env[mname]=r[0]
                        if not omitted: fields.append((mname,r[0]))
                return (Obj(name,tuple(fields),(pos,q)),q)
        return super().call(name,args,kwargs,pos)

def render(rules, ignores, style):
    body=proto5.render(rules).rstrip('\n').split('\n')
    ign=[]
    for i,pat in enumerate(ignores):
        if style=='named': ign.append('ignore Ig%d = /%s/'%(i,pat))
        elif style=='anon': ign.append('ignore /%s/'%pat)
        elif style=='anon_after': ign.append('ignored /%s/'%pat)
    if style=='anon_after': return '\n'.join(body+ign)+'\n'
    return '\n'.join(ign+body)+'\n'

def spans_impl(g,v,out):
    if isinstance(v,(list,tuple)):
        return type(v)(spans_impl(g,x,out) for x in v) if isinstance(v,tuple) else [spans_impl(g,x,out) for x in v]
    if isinstance(v,g.ParsedObject):
        sp=v._metadata.position_info
        spv=(sp.start.index,sp.end.index+1) if sp is not None and hasattr(sp,'start') else ('RAW',sp)
        return ('O',type(v).__name__,tuple((f,spans_impl(g,getattr(v,f),out)) for f in v._fields),spv)
    return v
def spans_model(v):
    if isinstance(v,list): return [spans_model(x) for x in v]
    if isinstance(v,tuple): return tuple(spans_model(x) for x in v)
    if isinstance(v,Obj):
        sp=v.span
        return ('O',v.cls,tuple((f,spans_model(x)) for f,x in v.fields), sp if sp[1]>sp[0] else 'ANY')
    if isinstance(v,proto5.Closure): return v.strval
    return v
def eqspan(a,b):
    # model 'ANY' span matches anything (zero-width instance)
    if isinstance(a,tuple) and isinstance(b,tuple) and len(a)==4 and a and a[0]=='O' and b and b[0]=='O':
        return a[1]==b[1] and len(a[2])==len(b[2]) and all(x[0]==y[0] and eqspan(x[1],y[1]) for x,y in zip(a[2],b[2])) and (a[3]=='ANY' or a[3]==b[3])
    if isinstance(a,(list,tuple)) and isinstance(b,(list,tuple)) and type(a)==type(b):
        return len(a)==len(b) and all(eqspan(x,y) for x,y in zip(a,b))
    return a==b and type(a)==type(b)

class Timeout(Exception): pass
def _alarm(*a): raise Timeout()

def check(job):
    rules,ignores,style,startname,INP=job
    from sourcer import Grammar
    signal.signal(signal.SIGALRM,_alarm)
    desc=render(rules,ignores,style)
    try: g=Grammar(desc)
    except Exception as ex: return [('COMPILE',desc.replace('\n',' ; '),type(ex).__name__+':'+str(ex)[:90])]
    bad=[]
    entries=[(None,startname)]+[(n,n) for n,d in rules.items() if not d[1] and n!=startname]
    for t in INP:
      for ent,ename in entries:
        for pos in range(0,len(t)+1) if ent is None else (0,):
          for full in (True,False):
            m=IModel(rules,ignores,startname)
            try:
                r=m.parse(ename,t,pos)
            except IllFormed: continue
            if r is None: exp=('FAIL',)
            else:
                v,end=spans_model(r[0]),r[1]
                if full and end<len(t): exp=('PARTIAL',v,end)
                else: exp=('OK',v)
            signal.setitimer(signal.ITIMER_REAL,0.5)
            try:
                try:
                    f=(g.parse if ent is None else getattr(g,ent).parse)
                    rr=f(t,pos,full); got=('OK',spans_impl(g,rr,None))
                except g.PartialParseError as x: got=('PARTIAL',spans_impl(g,x.partial_result,None),x.last_position.index)
                except g.ParseError: got=('FAIL',)
                except Timeout: got=('TIMEOUT',)
                except Exception as x: got=('EXC',type(x).__name__,str(x)[:60])
            finally: signal.setitimer(signal.ITIMER_REAL,0)
            ok = got[0]==exp[0] and (len(got)<2 or got[0] in('EXC','TIMEOUT') or (eqspan(exp[1],got[1]) and exp[2:]==got[2:]))
            if not ok:
                bad.append((desc.replace('\n',' ; '),ent,t,pos,full,exp,got))
                if len(bad)>=1: return bad
    return bad

A=('str','a'); B=('str','b')
def universe():
    INP=list(inputs('ab #',4))+[a+b for a in ['a b','ab ',' a#b','a \nb'] for b in ['',' ','a']]
    shapes={
      'lit':('rule',None,A), 'seq':('rule',None,('seq',A,B)), 'star':('rule',None,('star',A)),
      'opt':('rule',None,('seq',('opt',A),B)), 'choice':('rule',None,('choice',('seq',A,A),('seq',A,B))),
      'expect':('rule',None,('seq',('expect',A),A,B)), 're':('rule',None,('seq',('re','a+'),B)),
      'ref':('rule',None,('star',('ref','X'))), 'tmpl':('rule',None,('call','T',[A],[])),
      'cls':('class',None,[('p',False,A),('q',False,('opt',B))]),
      'clsref':('rule',None,('star',('ref','K'))),
      'clsmemo':('rule',None,('seq',('expect',('ref','K')),('ref','K'))),
      'clsempty':('class',None,[('p',False,('opt',A))]),
      'clsnest':('rule',None,('star',('choice',('ref','K2'),('ref','K')))),
    }
    base={'X':('rule',None,('choice',A,B)),'T':('rule',['p'],('seq',('ref','p'),('opt',('ref','p')))),
          'K':('class',None,[('k',False,A),('j',False,('opt',B))]),
          'K2':('class',None,[('inner',False,('ref','K')),('z',False,('str','#'))])}
    igns={'none':[], 'sp':[' +'], 'spnl':['[ \\n]+'], 'two':[' +','#[^\\n]*']}
    for sn,sh in shapes.items():
        for ik,ig in igns.items():
            for style in (['named'] if not ig else ['named','anon','anon_after']):
                if ik=='two' and sn in('clsnest',): continue
                rules={'start':sh}; rules.update(base)
                yield (rules,ig,style,'start',INP)
if __name__=='__main__':
    jobs=list(universe()); print('jobs',len(jobs))
    t0=time.time()
    with Pool(16) as p: res=p.map(check,jobs,chunksize=1)
    print('time',time.time()-t0,'bad',sum(1 for r in res if r))
    cl=collections.Counter()
    for j,r in zip(jobs,res):
        if r:
            b=r[0]
            sig=(b[0],b[2][:50]) if b[0]=='COMPILE' else ('DIFF',b[5][0],b[6][0],b[6][1] if b[6][0]=='EXC' else '')
            cl[sig]+=1
            if cl[sig]<=3: print(str(b)[:700])
    for k,v in cl.items(): print(v,k)
