import sys, types, importlib, re, ast, glob, os
import sourcer
from sourcer import Grammar
import sourcer.parser as p0
desc = open('/repo/grammar.txt').read()
g1 = Grammar(desc, include_source=True)
src1 = g1._source_code
shipped = open(os.path.join(os.path.dirname(sourcer.__file__),'parser.py')).read().split('\n',1)[1]
print('gen1 text == shipped:', src1==shipped)
# corpus: grammar strings from tests
corpus=[desc]
for f in glob.glob('/repo/tests/*.py')+glob.glob('/repo/examples/*.py'):
    t=ast.parse(open(f).read())
    for n in ast.walk(t):
        if isinstance(n,ast.Call) and getattr(n.func,'id',None)=='Grammar' and n.args:
            a=n.args[0]
            if isinstance(a,ast.Constant) and isinstance(a.value,str): corpus.append(a.value)
print('corpus',len(corpus))
def outcome(p,d):
    try: return ('OK',repr(p.parse(d)))
    except p.PartialParseError as e: return ('PARTIAL',e.last_position.index)
    except p.ParseError as e: return ('FAIL',e.position.index)
    except Exception as e: return ('EXC',type(e).__name__)
n=0;bad=0
for d in corpus:
    cases=[d]
    if len(d)<=1500:
        cases += [d[:i]+d[i+1:] for i in range(len(d))]
    for c in cases:
        n+=1
        a,b=outcome(p0,c),outcome(g1,c)
        if a!=b:
            bad+=1
            if bad<4: print('DIFF',repr(c[:80]),a[0],b[0],a[1] if a[0]!='OK' else '',b[1] if b[0]!='OK' else '')
print('compared',n,'bad',bad)
# gen2: install gen1 in-memory and regenerate
m=types.ModuleType('sourcer.parser'); exec(compile(src1,'<gen1>','exec'),m.__dict__)
sys.modules['sourcer.parser']=m; sourcer.parser=m
import sourcer.grammar, sourcer.translator
sourcer.grammar.parser=m; sourcer.translator.parser=m
g2 = Grammar(desc, include_source=True)
print('gen2 text == gen1 text:', g2._source_code==src1)
