import sys
from sourcer import Grammar
def tryit(label, f):
    try:
        r = f()
        print(label, '->', repr(r)[:300])
    except BaseException as e:
        print(label, 'RAISED', type(e).__name__, str(e)[:200].replace('\n','\\n'))
def c13d():
    A = Grammar('grammar pk.ca\nstart = X\nX = "a"')
    B = Grammar('grammar pk.cb extends pk.ca\noverride X = "b" | super.X')
    return [B.parse(t) for t in 'ab']
tryit('C13 dotted', c13d)
def c13e():
    A = Grammar('grammar ca\nstart = X\nX = "a"')
    B = Grammar('grammar cb extends ca\noverride X = "b" | super.X')
    C = Grammar('grammar cc extends cb\nY = "y"')
    return [C.parse(t) for t in 'ab']
tryit('C13 chain3 super only in middle', c13e)
def c13f():
    A = Grammar('grammar ca2\nstart = X\nX = "a"')
    B = Grammar('grammar cb2 extends ca2\nY="y"')
    C = Grammar('grammar cc2 extends cb2\noverride X = "c" | super.X')
    return [C.parse(t) for t in 'ac']
tryit('C13 chain3 super only in leaf', c13f)
