# Throwaway prototype C16/C14: transform with callbacks + metadata; _replace/_asdict; equality relation
import itertools, sys, copy, collections
from sourcer import Grammar
g = Grammar(r'''
    start = T*
    T = K2 | K1 | L
    class K1 { a: "1" >> T? }
    class K2 { a: "2" >> T; b: T }
    L = "[" >> T* << "]"
''')
K1,K2,PO=g.K1,g.K2,g.ParsedObject
def sentences(n):
    S='12[]'
    for L in range(1,n+1):
        for t in itertools.product(S,repeat=L): yield ''.join(t)
trees=[]
for s in sentences(5):
    try: trees.append((s,g.parse(s)))
    except g.InputError: pass
print('parsed trees',len(trees))
def meta(n): 
    pi=n._metadata.position_info
    return (pi.start.index,pi.end.index) if pi else None
def snap(x):
    if isinstance(x,list): return ['L']+[snap(y) for y in x]
    if isinstance(x,PO): return (type(x).__name__,meta(x),tuple((f,snap(getattr(x,f))) for f in x._fields))
    return x
class Log(list): pass
def cb_id(log):
    def f(n): log.append(('id',snap(n))); return n
    return f
def cb_k1_to_k2(log):
    def f(n):
        log.append(('a',snap(n)))
        return K2(n.a, None) if isinstance(n,K1) else n      # replacement without metadata
    return f
def cb_k2_to_scalar(log):
    def f(n):
        log.append(('b',snap(n) if isinstance(n,PO) else n))
        return 7 if isinstance(n,K2) else n
    return f
def cb_k1_to_list(log):
    def f(n):
        log.append(('c',snap(n) if isinstance(n,PO) else n))
        return [n.a] if isinstance(n,K1) else n
    return f
def cb_copy(log):
    def f(n):
        log.append(('d',snap(n) if isinstance(n,PO) else n))
        return type(n)(**n._asdict()) if isinstance(n,PO) else n   # fresh equal copy w/o metadata
    return f
CBS=[cb_id,cb_k1_to_k2,cb_k2_to_scalar,cb_k1_to_list,cb_copy]
def ref_transform(x,cbs):
    if isinstance(x,list): return [ref_transform(y,cbs) for y in x]
    if not isinstance(x,PO): return x
    kw={f:ref_transform(getattr(x,f),cbs) for f in x._fields}
    # rebuilt parent carries metadata of original
    changed=any(kw[f] is not getattr(x,f) for f in x._fields)
    node=x
    if changed:
        node=type(x)(**kw); node._metadata.update(x._metadata)
    for f in cbs:
        prev=node; node=f(prev)
        if node is not prev and isinstance(prev,PO) and isinstance(node,PO) and not len(node._metadata):
            node._metadata.update(prev._metadata)
    return node
bad=collections.Counter(); first={}
n=0
for s,t in trees:
    for k in (1,2):
        for combo in itertools.product(CBS,repeat=k):
            n+=1
            before=snap(t)
            l1=Log(); l2=Log()
            try:
                got=g.transform(t,*[c(l1) for c in combo])
                exp=ref_transform(t,[c(l2) for c in combo])
            except Exception as e:
                bad['exc:'+type(e).__name__]+=1; first.setdefault('exc',(s,[c.__name__ for c in combo],str(e)[:80])); continue
            if snap(got)!=snap(exp): bad['result']+=1; first.setdefault('result',(s,[c.__name__ for c in combo],snap(got),snap(exp)))
            if list(l1)!=list(l2): bad['log']+=1; first.setdefault('log',(s,[c.__name__ for c in combo]))
            if snap(t)!=before: bad['mutated']+=1; first.setdefault('mutated',(s,))
print('runs',n,bad)
for k,v in first.items(): print(k,str(v)[:600])
# _replace / _asdict / equality
objs=[o for s,t in trees for o in g.visit(t)]
print('objects',len(objs))
b2=collections.Counter()
for o in objs[:400]:
    d=o._asdict()
    if list(d)!=list(o._fields): b2['asdict-order']+=1
    for f in o._fields:
        r=o._replace(**{f:'Z'})
        if getattr(r,f)!='Z' or any(getattr(r,x) is not getattr(o,x) for x in o._fields if x!=f) or meta(r)!=meta(o) or r is o: b2['replace']+=1
# equivalence on pairs
import time
t0=time.time(); sub=objs[:300]
for a in sub:
    for b in sub:
        e=(a==b)
        if e!=(snap_nometa:=None) and False: pass
        if e != (type(a) is type(b) and all(getattr(a,f)==getattr(b,f) for f in a._fields)): b2['eqdef']+=1
        if e != (b==a): b2['sym']+=1
        if e and hash(a)!=hash(b): b2['hash']+=1
print('pairs',len(sub)**2,time.time()-t0,b2)
