from sourcer import Grammar
import time, collections
gE = Grammar('start = [/[xy\\n]*/, "!"]')
gP = Grammar('start = /[xy\\n]*/')
def check(g, text, idx, kind):
    try:
        g.parse(text); return 'noerr'
    except g.ParseError as e:
        p=e.position; msg=str(e)
    except g.PartialParseError as e:
        p=e.last_position; msg=str(e)
    if p.index!=idx: return 'idx %r'%(p,)
    line=1+text.count('\n',0,idx); col=idx-(text.rfind('\n',0,idx)+1)+1
    if (p.line,p.column)!=(line,col): return 'linecol %r exp %r'%(p,(line,col))
    lines=msg.split('\n')
    ex, caret = lines[1], lines[2]
    if caret.strip()!='^' or set(caret[:-1])-{' '}: return 'caretline %r'%caret
    k=len(caret)-1
    if k>=len(ex) or ex[k]!='?': return 'caret under %r'%(ex[k] if k<len(ex) else None)
    return 'ok'
t0=time.time(); n=0; bad=collections.Counter(); first={}
for L in range(0,200):
    for c in range(0,L):
        for pre in ['', '\n', 'xx\n', 'x'*100+'\n']:
            for suf in ['', '\n', '\nyyy', '\n'+'y'*100]:
                text = pre + 'x'*c + '?' + 'y'*(L-c-1) + suf
                idx=len(pre)+c
                for g,kind in ((gE,'E'),(gP,'P')):
                    r=check(g,text,idx,kind); n+=1
                    if r!='ok':
                        bad[(kind,r.split()[0])]+=1
                        first.setdefault((kind,r.split()[0]),(L,c,repr(pre[:5]),repr(suf[:5]),r))
print(n, time.time()-t0, bad)
for k,v in first.items(): print(k,v)
# which (L,c) windows
win=set()
for L in range(0,200):
    for c in range(0,L):
        text='x'*c+'?'+'y'*(L-c-1)+'\nyyy'
        if check(gE,text,c,'E')!='ok': win.add((L,c,L-c))
print(sorted(win)[:10], len(win), sorted({w[2] for w in win}))
