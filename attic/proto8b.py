import sys, time
import proto8
from proto8 import *
from multiprocessing import Pool
if __name__=='__main__':
    from sourcer import Grammar
    g=Grammar(BASE,include_source=True)
    names=set()
    for tok in tokenize.generate_tokens(io.StringIO(g._source_code).readline):
        if tok.type==tokenize.NAME: names.add(tok.string)
    import sourcer.expressions as ex
    names |= {n for n in dir(ex) if n[0].isupper()}
    used=set(ROLES.values())|{'start','Item','Pair','Wd','Tm','Ex','Nm','kf','sf','vf','wf','prm','lv'}
    pool=sorted(n for n in names if not n.startswith('_') and not keyword.iskeyword(n) and n not in API and n not in used and n not in ('True','False','None'))
    jobs=[(role,old,new) for role,old in ROLES.items() for new in pool]
    done=set()
    with Pool(16) as p:
        it=p.imap_unordered(lambda_job, list(enumerate(jobs)), chunksize=1) if False else None
        rs=[(i,p.apply_async(job,(j,))) for i,j in enumerate(jobs)]
        t0=time.time()
        pending=dict(rs)
        while pending and time.time()-t0<40:
            for i in list(pending):
                if pending[i].ready():
                    pending.pop(i)
            time.sleep(0.5)
        print('unfinished', [jobs[i] for i in sorted(pending)][:40], len(pending))
        p.terminate()
