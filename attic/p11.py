from sourcer import Grammar
import time, sys
def run(g, t, rule=None, **kw):
    try:
        r = (g if rule is None else getattr(g, rule)).parse(t, **kw)
        return ('OK', r, len(t))
    except g.PartialParseError as e:
        return ('PARTIAL', e.partial_result, e.last_position.index)
    except g.ParseError as e:
        return ('FAIL', e.position.index)
    except Exception as e:
        return ('EXC', type(e).__name__, str(e)[:100])
def G(desc, **kw):
    try:
        return Grammar(desc, **kw)
    except Exception as e:
        print('  COMPILE EXC', type(e).__name__, str(e)[:150]); return None
def show(desc, texts, rule=None, **kw):
    print('---', desc.strip().replace('\n',' ; ')[:200])
    g = G(desc)
    if g is None: return
    for t in texts: print('   ', repr(t), run(g,t,rule,**kw))
# constructor forms
show('start = List("a", min_len=2, max_len=3)', ['a','aa','aaaa'])
show('start = List("a")', ['','aa'])
show('start = Some("a")', ['','aa'])
show('start = Choice("a", "b")', ['a','b','c'])
show('start = Seq("a", "b")', ['ab'])
show('start = Right("a", "b")', ['ab'])
show('start = Left("a", "b")', ['ab'])
show('start = Opt("a")', ['','a'])
show('start = Sep("a", ",")', ['a,a','a,a,'])
show('start = Sep("a", ",", allow_trailer=True)', ['a,a','a,a,'])
show('start = Expect("a") >> /./', ['a','b'])
show('start = Where(/./, `lambda x: x == "a"`)', ['a','b'])
show('start = Apply(/./, `str.upper`)', ['a'])
show('start = Let("x", "a", "b")', ['ab'])
# layout
show('start: "a" ; X => "b"', ['a'])
show('start = "a" |\n   "b"', ['a','b'])
show('start = "a"\n   | "b"', ['a','b'])
show('''# comment
start = ( # c
  "a" ) # trailing

ignored /\\s+/
''', ['a '])
show('"a" | "b"', ['a','b'])
# grouping
show('start = "a" >> "b" | "c"', ['ab','c'])
show('start = "a" // "," >> "b"', ['a,ab'])
show('start = /./ |> `str.upper` where `lambda v: v == "A"`', ['a','b'])
show('start = "a" | "b"*', ['a','bb',''])
