from sourcer import Grammar
def run(g, t, rule=None, **kw):
    try:
        r = (g if rule is None else getattr(g, rule)).parse(t, **kw)
        return ('OK', r, len(t))
    except g.PartialParseError as e:
        return ('PARTIAL', e.partial_result, e.last_position.index)
    except g.ParseError as e:
        return ('FAIL', e.position.index)
    except Exception as e:
        return ('EXC', type(e).__name__, str(e)[:100])
def G(desc, **kw):
    try:
        return Grammar(desc, **kw)
    except Exception as e:
        print('  COMPILE EXC', type(e).__name__, str(e)[:150]); return None
def show(desc, texts, rule=None, **kw):
    print('---', desc.strip().replace('\n',' ; ')[:200], '| rule', rule)
    g = G(desc)
    if g is None: return
    for t in texts: print('   ', repr(t), run(g,t,rule,**kw))
    return g
# ignore: skip after literal inside Expect / failed branch; other entry points
d='''
ignore / +/
start = [Expect("a"), "a", "b"?]
X = "a"+
'''
show(d, [' a b','a  b ','ab',' a'])
show(d, [' a a','a a '], rule='X')
show('ignore / +/\nstart = ExpectNot("a" "b") >> /[ab ]*/', ['a b','a c'])
show('ignore / +/\nignore /#[^\\n]*/\nstart = "a"*', [' a #c\n a','a#',' # a'])
show('start = "a"*\nignore Sp = / +/\nignore Cm = /#[^\\n]*/', [' a #c','a #c a'])
# ignored rule referenced explicitly
show('ignore Sp = / +/\nstart = ["a", Sp?, "b"]', ['a b','ab'])
# inheritance & ignore: only child has ignore
A=show('grammar ia1\nstart = X*\nX = "a"', ['aa','a a'])
B=show('grammar ib1 extends ia1\nignore / +/\nY = "b"', ['aa','a a',' aa'])
print('   B.Y', run(B,'b ', 'Y'))
# override with ignore in child
B2=show('grammar ib2 extends ia1\nignore / +/\noverride X = "a" | "b"', ['ab','a b',' a b'])
# named ignore in base, child overrides
A3=show('grammar ia3\nignore Sp = / +/\nstart = X*\nX = "a"', ['a a'])
B3=show('grammar ib3 extends ia3\noverride X = "b" | super.X', ['a b',' b a '])
print('   A3 after', run(A3,'a b'), run(A3,'a a'))
# start override
B4=show('grammar ib4 extends ia3\noverride start = [X, X]', ['a a',' a a'])
# class in base used by child
A5=show('grammar ia5\nstart = C*\nclass C { v: X }\nX = "a"', ['aa'])
B5=show('grammar ib5 extends ia5\noverride X = "b"', ['bb','ab'])
print('   class identity', type(B5.parse('b')[0]) is A5.C, B5.C is A5.C)
