import sys, time, threading
from sourcer import Grammar
g = Grammar(r'''
    ignore /\s+/
    start = Item*
    Item = Pair | Word
    class Pair { k: Word << ":"; v: Word }
    Word = /[a-z]+/
''')
fn = g.parse.__code__.co_filename
print('filename', fn)
count = 0
def tracer(frame, event, arg):
    global count
    if frame.f_code.co_filename != fn:
        return None
    if event == 'line':
        count += 1
    return tracer
texts = ['a:b c', 'x y:z', 'a: !']
for t in texts:
    count = 0
    sys.settrace(tracer)
    try:
        try: g.parse(t)
        except g.InputError: pass
    finally:
        sys.settrace(None)
    print(repr(t), 'line events', count)
# timing under trace
N=200
t0=time.time()
for i in range(N):
    sys.settrace(tracer)
    try: g.parse(texts[0])
    except g.InputError: pass
    sys.settrace(None)
print('per traced parse', (time.time()-t0)/N)
