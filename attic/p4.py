import sys
from sourcer import Grammar
def tryit(label, f):
    try:
        r = f()
        print(label, '->', repr(r)[:300])
    except BaseException as e:
        print(label, 'RAISED', type(e).__name__, str(e)[:200].replace('\n','\\n'))
def c13f():
    A = Grammar('grammar ca2\nstart = X\nX = "a"')
    B = Grammar('grammar cb2 extends ca2\nY="y"')
    C = Grammar('grammar cc2 extends cb2\noverride X = "c" | super.X', include_source=True)
    print(C._source_code[-1500:])
    return [C.parse(t) for t in 'ac']
tryit('C13 chain3 super only in leaf', c13f)
def two():
    A = Grammar('grammar ca3\nstart = X*\nX = "a"')
    B = Grammar('grammar cb3 extends ca3\noverride X = "b" | super.X', include_source=True)
    print(B._source_code)
    return [B.parse(t) for t in ['ab','ba']], A.parse('aa')
tryit('two-level', two)
