import sys, os, time, itertools
import proto2
from proto2 import *
from multiprocessing import Pool
if __name__=='__main__':
    tables=[t for t in itertools.product(ROWTYPES,repeat=3)]
    jobs=[(t,False) for t in tables]
    print('jobs',len(jobs))
    t0=time.time()
    with Pool(16,initializer=init) as p: res=p.map(check,jobs,chunksize=8)
    print('time',time.time()-t0,'bad',sum(1 for r in res if r))
    other=0
    for (t,lit),r in zip(jobs,res):
        if not r: continue
        hasinf=any(k=='infix' for k,_ in t); haspre=any(k=='prefix' for k,_ in t)
        if hasinf and haspre: continue
        other+=1
        if other<=25: print(r[0])
    print('other-cluster',other)
