# Throwaway prototype: model with environments, templates (by-name args), classes; C05/C06 probes
import re, sys, itertools, signal, collections, time
from multiprocessing import Pool

class IllFormed(Exception): pass
FAIL=None

class Obj:
    def __init__(s,cls,fields,span): s.cls=cls; s.fields=fields; s.span=span
    def __eq__(s,o): return isinstance(o,Obj) and (s.cls,s.fields)==(o.cls,o.fields)
    def __repr__(s): return '%s(%s)'%(s.cls,', '.join('%s=%r'%kv for kv in s.fields))

class Closure:   # by-name parser argument
    def __init__(s,expr,env,strval=None): s.expr=expr; s.env=env; s.strval=strval
    def __eq__(s,o):
        if isinstance(o,str) and s.strval is not None: return s.strval==o
        return s is o
    def __hash__(s): return hash(s.strval) if s.strval is not None else id(s)
    def __repr__(s): return repr(s.strval) if s.strval is not None else '<closure>'

class Model:
    def __init__(s,rules,pyglobals=None):
        s.rules=rules   # name -> ('rule',params,expr) | ('class',params,members)
        s.g=dict(pyglobals or {})
    def parse(s,start,text,pos=0):
        s.text=text; s.memo={}
        return s.call(start,(),{},pos)
    def call(s,name,args,kwargs,pos):
        key=(name,tuple(args),tuple(sorted(kwargs.items())),pos)
        try: hash(key)
        except TypeError: key=None
        if key is not None and key in s.memo: return s.memo[key]
        d=s.rules[name]
        env={}
        params=d[1] or []
        for p,a in zip(params,args): env[p]=a
        for k,v in kwargs.items(): env[k]=v
        if d[0]=='rule':
            r=s.ev(d[2],pos,env)
        else:
            p=pos; fields=[]; env=dict(env)
            for (mname,omitted,expr) in d[2]:
                r=s.ev(expr,p,env)
                if not r: break
                p=r[1]
                if mname:
                    env[mname]=r[0]
                    if not omitted: fields.append((mname,r[0]))
            else:
                r=(Obj(name,tuple(fields),(pos,p)),p)
            if not r: r=FAIL
        if key is not None: s.memo[key]=r
        return r
    def pyeval(s,code,env):
        d=dict(s.g); d.update(env); return eval(code,d)
    def argval(s,a,env):
        k=a[0]
        if k=='py': return s.pyeval(a[1],env)
        if k=='ref' and a[1] in env: return env[a[1]]
        if k=='ref': return Closure(a,{})   # rule name
        if k=='str': return Closure(a,env,strval=a[1])
        return Closure(a,env)
    def ev(s,e,pos,env):
        text=s.text; k=e[0]
        if k=='str':
            v=e[1]; return (v,pos+len(v)) if text.startswith(v,pos) else FAIL
        if k=='re':
            m=re.compile(e[1]).match(text,pos); return (m.group(0),m.end()) if m else FAIL
        if k=='py': return (s.pyeval(e[1],env),pos)
        if k=='ref':
            n=e[1]
            if n in env:
                v=env[n]
                if isinstance(v,Closure): return s.ev(v.expr,pos,v.env) if v.expr[0]!='ref' or v.expr[1] in v.env else s.call(v.expr[1],(),{},pos)
                raise TypeError('value used as parser: %r'%(v,))
            return s.call(n,(),{},pos)
        if k=='call':
            args=[s.argval(a,env) for a in e[2]]
            kwargs={kk:s.argval(a,env) for kk,a in e[3]}
            return s.call(e[1],args,kwargs,pos)
        if k=='let':
            r=s.ev(e[2],pos,env)
            if not r: return FAIL
            env2=dict(env); env2[e[1]]=r[0]
            return s.ev(e[3],r[1],env2)
        if k=='where':
            r=s.ev(e[1],pos,env)
            if not r: return FAIL
            f=s.ev(e[2],r[1],env)
            if not f: return FAIL
            return (r[0],f[1]) if f[0](r[0]) else FAIL
        if k=='apply':   # e1 |> e2
            r=s.ev(e[1],pos,env)
            if not r: return FAIL
            f=s.ev(e[2],r[1],env)
            if not f: return FAIL
            return (f[0](r[0]),f[1])
        if k=='seq':
            out=[];p=pos
            for x in e[1:]:
                r=s.ev(x,p,env)
                if not r: return FAIL
                out.append(r[0]);p=r[1]
            return (out,p)
        if k in('right','left'):
            r1=s.ev(e[1],pos,env)
            if not r1: return FAIL
            r2=s.ev(e[2],r1[1],env)
            if not r2: return FAIL
            return ((r2[0] if k=='right' else r1[0]),r2[1])
        if k=='choice':
            for x in e[1:]:
                r=s.ev(x,pos,env)
                if r: return r
            return FAIL
        if k=='opt':
            r=s.ev(e[1],pos,env); return r if r else (None,pos)
        if k=='star':
            out=[];p=pos
            while True:
                r=s.ev(e[1],p,env)
                if not r: break
                if r[1]<=p: raise IllFormed()
                out.append(r[0]);p=r[1]
            return (out,p)
        if k=='expect':
            r=s.ev(e[1],pos,env); return (r[0],pos) if r else FAIL
        if k=='longest':
            best=None
            for x in e[1:]:
                r=s.ev(x,pos,env)
                if r and (best is None or r[1]>best[1]): best=r
            return best
        if k=='rep':
            n=e[2]; n=env[n] if isinstance(n,str) else n
            out=[];p=pos
            while len(out)<n:
                r=s.ev(e[1],p,env)
                if not r: break
                out.append(r[0]);p=r[1]
            return (out,p) if len(out)>=n else FAIL
        raise Exception(k)

def R(e):
    k=e[0]
    if k=='str': return '"%s"'%e[1]
    if k=='re': return '/%s/'%e[1]
    if k=='py': return '`%s`'%e[1]
    if k=='ref': return e[1]
    if k=='call':
        a=[R(x) for x in e[2]]+['%s=%s'%(kk,R(x)) for kk,x in e[3]]
        return '%s(%s)'%(e[1],', '.join(a))
    if k=='let': return '(let %s = %s in %s)'%(e[1],R(e[2]),R(e[3]))
    if k=='where': return '(%s where %s)'%(R(e[1]),R(e[2]))
    if k=='apply': return '(%s |> %s)'%(R(e[1]),R(e[2]))
    if k=='seq': return '[%s]'%', '.join(R(x) for x in e[1:])
    if k=='right': return '(%s >> %s)'%(R(e[1]),R(e[2]))
    if k=='left': return '(%s << %s)'%(R(e[1]),R(e[2]))
    if k=='choice': return '(%s)'%' | '.join(R(x) for x in e[1:])
    if k=='opt': return 'Opt(%s)'%R(e[1])
    if k=='star': return '(%s)*'%R(e[1])
    if k=='expect': return 'Expect(%s)'%R(e[1])
    if k=='longest': return 'Longest(%s)'%', '.join(R(x) for x in e[1:])
    if k=='rep': return '(%s){%s}'%(R(e[1]),e[2])
    raise Exception(k)
def render(rules,name=None):
    out=[]
    if name: out.append('grammar %s'%name)
    for n,d in rules.items():
        ps='(%s)'%', '.join(d[1]) if d[1] else ''
        if d[0]=='rule': out.append('%s%s = %s'%(n,ps,R(d[2])))
        else:
            ms=[]
            for (mn,om,ex) in d[2]:
                if mn: ms.append('    %s%s: %s'%('let ' if om else '',mn,R(ex)))
                else: ms.append('    pass %s'%R(ex))
            out.append('class %s%s {\n%s\n}'%(n,ps,'\n'.join(ms)))
    return '\n'.join(out)+'\n'

def conv(g,v):
    if isinstance(v,list): return [conv(g,x) for x in v]
    if isinstance(v,tuple): return tuple(conv(g,x) for x in v)
    if isinstance(v,g.ParsedObject):
        return Obj(type(v).__name__,tuple((f,conv(g,getattr(v,f))) for f in v._fields),None)
    if type(v).__name__=='_StringLiteral': return str(v)
    return v
def mconv(v):
    if isinstance(v,list): return [mconv(x) for x in v]
    if isinstance(v,tuple): return tuple(mconv(x) for x in v)
    if isinstance(v,Closure): return v.strval if v.strval is not None else v
    if isinstance(v,Obj): return Obj(v.cls,tuple((f,mconv(x)) for f,x in v.fields),None)
    return v

class Timeout(Exception): pass
def _alarm(*a): raise Timeout()
def inputs(S,n):
    for L in range(n+1):
        for t in itertools.product(S,repeat=L): yield ''.join(t)

_counter=[0]
def check(job):
    rules,named,INP=job
    from sourcer import Grammar
    signal.signal(signal.SIGALRM,_alarm)
    _counter[0]+=1
    nm='pm%d_%d'%(__import__('os').getpid(),_counter[0]) if named else None
    desc=render(rules,nm)
    try: g=Grammar(desc)
    except Exception as ex: return [('COMPILE',desc,type(ex).__name__+':'+str(ex)[:90])]
    finally:
        if nm: sys.modules.pop(nm,None)
    m=Model(rules)
    bad=[]
    for t in INP:
        try:
            r=m.parse('start',t)
            exp=('FAIL',) if r is None else ('OK',mconv(r[0]),r[1])
        except IllFormed: continue
        except Exception as x:
            exp=('MODELEXC',type(x).__name__,str(x)[:50])
        signal.setitimer(signal.ITIMER_REAL,2.0)
        try:
            try: r=g.parse(t); got=('OK',conv(g,r),len(t))
            except g.PartialParseError as x: got=('OK',conv(g,x.partial_result),x.last_position.index)
            except g.ParseError: got=('FAIL',)
            except Timeout: got=('TIMEOUT',)
            except Exception as x: got=('EXC',type(x).__name__,str(x)[:60])
        finally: signal.setitimer(signal.ITIMER_REAL,0)
        if got!=exp:
            bad.append((desc.replace('\n',' ; '),t,exp,got)); 
            if len(bad)>=1: break
    return bad

# ---- C06 universe (prototype) ----
P=('ref','p'); Q=('ref','q')
BODIES={
 'p': P, '[p,p]':('seq',P,P), 'p*':('star',P), 'p|z':('choice',P,('str','c')),
 'Ep>>p':('right',('expect',P),P), 'let':('let','v',P,('seq',('py','v'),P)),
 'val':('seq',('str','a'),('py','p')),
}
ARGS={
 'str':('str','a'), 're':('re','[ab]'), 'rule':('ref','X'), 'cls':('ref','K'),
 'choice':('choice',('str','a'),('str','b')), 'seq':('seq',('str','a'),('str','b')), 'star':('star',('str','a')),
 'py3':('py','3'), "pys":('py',"'s'"), 'pyNone':('py','None'), 'pylist':('py','[1]'),
}
def c06_jobs():
    INP=list(inputs('abc',4))
    base={'X':('rule',None,('str','b')),'K':('class',None,[('k',False,('str','a'))])}
    for bn,b in BODIES.items():
        for an,a in ARGS.items():
            valarg = an.startswith('py')
            if valarg != (bn=='val'): continue
            for named in (False,True):
                for kw in ((False,) if __import__("os").environ.get("NOKW") else (False,True)):
                    call=('call','T',[] if kw else [a],[('p',a)] if kw else [])
                    rules={'start':('rule',None,call),'T':('rule',['p'],b)}; rules.update(base)
                    yield (rules,named,INP)
                    # bound-name arg: let w = /[ab]/ in T(w) ; and compound mentioning w
    # call-site bound names
    for named in (False,True):
        for bn in ('p','[p,p]','val'):
            b=BODIES[bn]
            a1=('ref','w')
            rules={'start':('rule',None,('let','w',('re','[ab]'),('call','T',[a1],[]))),'T':('rule',['p'],BODIES['val'] if bn=='val' else ('seq',('str','a'),('py','p')))}
            yield (rules,named,INP)
            a2=('where',('re','[ab]'),('py','lambda y: y == w'))
            rules={'start':('rule',None,('let','w',('re','[ab]'),('call','T',[a2],[]))),'T':('rule',['p'],('seq',P,P))}
            yield (rules,named,INP)
            a3=('seq',('ref','W'),('str','c'))   # compound mentioning a rule only
            rules={'start':('rule',None,('call','T',[a3],[])),'T':('rule',['p'],('seq',P,P)),'W':('rule',None,('str','a'))}
            yield (rules,named,INP)
            # earlier result values of each type
            for src in [('re','[ab]'),('apply',('re','[ab]'),('py','len')),('opt',('str','c')),('star',('str','a')),('ref','K')]:
                rules={'start':('rule',None,('let','w',src,('call','T',[('ref','w')],[]))),'T':('rule',['p'],('seq',('str','b'),('py','p')))}; rules.update(base)
                yield (rules,named,INP)
        # two instantiations at same position
        for (x,y) in [(('str','a'),('str','b')),(('py','1'),('py','True')),(('str','a'),('re','a'))]:
            body=('seq',('str','a'),('py','p')) if x[0]=='py' else ('seq',P,P)
            rules={'start':('rule',None,('seq',('expect',('opt',('call','T',[x],[]))),('opt',('call','T',[y],[])))) ,'T':('rule',['p'],body)}
            yield (rules,named,INP)
        # nested / recursive
        rules={'start':('rule',None,('call','T',[('str','a')],[])),'T':('rule',['p'],('call','U',[('seq',P,('str','c'))],[])),'U':('rule',['q'],('seq',Q,Q))}
        yield (rules,named,INP)
        rules={'start':('rule',None,('call','T',[('str','a')],[])),'T':('rule',['p'],('seq',P,('opt',('call','T',[P],[]))))}
        yield (rules,named,INP)
        # class template
        rules={'start':('rule',None,('call','C',[('str','a'),('re','[bc]')],[])),'C':('class',['p','q'],[('x',False,P),('y',False,('star',Q))])}
        yield (rules,named,INP)

if __name__=='__main__':
    jobs=list(c06_jobs())
    print('jobs',len(jobs))
    t0=time.time()
    with Pool(16) as p: res=p.map(check,jobs,chunksize=2)
    print('time',time.time()-t0,'bad',sum(1 for r in res if r))
    cl=collections.Counter()
    for j,r in zip(jobs,res):
        if r:
            b=r[0]
            sig=(b[0],b[2][:40]) if b[0]=='COMPILE' else ('DIFF',b[3][0],b[3][1] if b[3][0]=='EXC' else '')
            cl[sig]+=1
            if cl[sig]<=2: print(b)
    for k,v in cl.items(): print(v,k)
