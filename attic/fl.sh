#!/bin/bash
# run python with fixlab as sourcer, resource-limited
ulimit -v 4000000
cd /tmp/probe
PYTHONPATH=/tmp/fixlab PYTHONDONTWRITEBYTECODE=1 exec timeout -k 2 ${SAFE_T:-120} /venv/bin/python "$@"
