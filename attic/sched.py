# Throwaway prototype: preemption-bounded schedule explorer for concurrent parse calls
import sys, threading, time, itertools, os

class Sched:
    def __init__(self, bodies, fname_ok, preempt):   # preempt: dict step_global_index -> target thread (only at points)
        self.bodies=bodies; self.n=len(bodies)
        self.sems=[threading.Semaphore(0) for _ in bodies]
        self.done=[False]*self.n
        self.results=[None]*self.n
        self.fname_ok=fname_ok
        self.preempt=preempt       # {(tid, local_step): target}
        self.steps=[0]*self.n
        self.trace=[]
        self.cur=None
        self.main=threading.Semaphore(0)
    def tracer_for(self,tid):
        def tr(frame,event,arg):
            if not self.fname_ok(frame.f_code.co_filename): return None
            if event=='line':
                self.point(tid)
            return tr
        return tr
    def point(self,tid):
        s=self.steps[tid]; self.steps[tid]=s+1
        tgt=self.preempt.get((tid,s))
        if tgt is not None and not self.done[tgt]:
            self.trace.append((tid,s,tgt))
            self.cur=tgt
            self.sems[tgt].release()
            self.sems[tid].acquire()
    def run_thread(self,tid):
        self.sems[tid].acquire()
        sys.settrace(self.tracer_for(tid))
        try:
            try: self.results[tid]=('OK',self.bodies[tid]())
            except BaseException as e: self.results[tid]=('EXC',type(e).__name__,str(e)[:80])
        finally:
            sys.settrace(None)
            self.done[tid]=True
            # hand over to any unfinished thread (lowest id), else main
            for t in range(self.n):
                if not self.done[t]:
                    self.cur=t; self.sems[t].release(); break
            else:
                self.main.release()
    def run(self, first=0):
        ths=[threading.Thread(target=self.run_thread,args=(i,)) for i in range(self.n)]
        for t in ths: t.start()
        self.cur=first; self.sems[first].release()
        self.main.acquire()
        for t in ths: t.join()
        return self.results, list(self.steps)

def explore(mkbodies, fname_ok, bound, expected, limit=None):
    # count steps with a 0-preemption run per starting thread
    n_exec=0; bad=[]
    s=Sched(mkbodies(),fname_ok,{}); res,steps=s.run(0); n_exec+=1
    n=len(steps)
    assert n==2
    outcomes=set()
    def do(first,pre):
        nonlocal n_exec
        s=Sched(mkbodies(),fname_ok,pre); res,_=s.run(first); n_exec+=1
        outcomes.add(repr(res))
        if res!=expected: bad.append((first,pre,res))
    for first in (0,1):
        other=1-first
        do(first,{})
        if bound>=1:
            for i in range(steps[first]):
                do(first,{(first,i):other})
        if bound>=2:
            for i in range(steps[first]):
                for j in range(steps[other]):
                    do(first,{(first,i):other,(other,j):first})
                    if limit and n_exec>limit: return n_exec,bad,outcomes,steps
    return n_exec,bad,outcomes,steps

if __name__=='__main__':
    from sourcer import Grammar
    desc=r'''
        start = Item*
        Item = Pair | W
        class W { w: /[a-z]+/ }
        class Pair { k: W << ":"; v: W }
    '''
    g=Grammar(desc)
    def conv(r): return repr(r)
    t1,t2='a:b','c\nd!'
    def b1():
        return repr(g.parse(t1))
    def b2():
        try: return repr(g.parse(t2))
        except g.InputError as e: return ('ERR',type(e).__name__,str(e))
    exp=[('OK',b1()),('OK',b2())]
    fname=g.parse.__code__.co_filename
    t0=time.time()
    n,bad,outs,steps=explore(lambda:[b1,b2], lambda f:f==fname, int(sys.argv[1]), exp, limit=int(sys.argv[2]) if len(sys.argv)>2 else None)
    dt=time.time()-t0
    print('steps',steps,'executions',n,'time',dt,'per',dt/n,'bad',len(bad),'distinct outcomes',len(outs))
    for b in bad[:3]: print(b)
