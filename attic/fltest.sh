#!/bin/bash
cd /tmp/fixlab && PYTHONPATH=/tmp/fixlab PYTHONDONTWRITEBYTECODE=1 /venv/bin/python -m pytest -q -p no:cacheprovider 2>&1 | tail -2
