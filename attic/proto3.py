# Throwaway prototype for C03: bounded repetition + Sep in contexts vs model
import re, sys, time, itertools, collections, signal, os
from multiprocessing import Pool
import proto
from proto import ev as ev0, IllFormed, FAIL

def render(e):
    k=e[0]
    if k=='rep':
        m,n=e[2],e[3]
        if m is None and n is None: op='*'
        elif n is None: op='{%s,}'%m
        elif m is None: op='{,%s}'%n
        elif m==n: op='{%s}'%m
        else: op='{%s,%s}'%(m,n)
        return '(%s)%s'%(render(e[1]),op)
    if k=='sep':
        _,el,sp,disc,trail,empty,req=e
        return 'Sep(%s, %s, discard_separators=%s, allow_trailer=%s, allow_empty=%s, require_separator=%s)'%(render(el),render(sp),disc,trail,empty,req)
    if k=='letrep':   # let k = /\d/ |> int in e{form}
        return '(let k = /\\d/ |> `int` in (%s)%s)'%(render(e[1]), e[2])
    if k in('seq','right','left','choice','opt','expect','expectnot','star'):
        return proto.render(tuple([k]+[('raw',render(x)) for x in e[1:]]))
    return proto.render(e)
_pr=proto.render
def _render_patch(e):
    if e[0]=='raw': return e[1]
    return _pr(e)
proto.render=_render_patch

def ev(e,text,pos,memo,env=None):
    k=e[0]
    if k=='rep':
        m,n=e[2],e[3]
        if isinstance(m,str): m=env[m]
        if isinstance(n,str): n=env[n]
        out=[]
        while n is None or len(out)<n:
            r=ev(e[1],text,pos,memo,env)
            if not r: break
            if r[1]<=pos and n is None: raise IllFormed()
            out.append(r[0]); pos=r[1]
        if m is not None and len(out)<m: return FAIL
        return (out,pos)
    if k=='letrep':
        m_=re.compile(r'\d').match(text,pos)
        if not m_: return FAIL
        kk=int(m_.group(0)); form=e[2]
        mm={'{k}':('k','k'),'{k,}':('k',None),'{,k}':(None,'k'),'{1,k}':(1,'k')}[form]
        return ev(('rep',e[1],mm[0],mm[1]),text,m_.end(),memo,{'k':kk})
    if k=='sep':
        _,el,sp,disc,trail,empty,req=e
        out=[]; saw=False; cp=pos; p=pos
        while True:
            r=ev(el,text,p,memo,env)
            if not r: break
            out.append(r[0]); p=r[1]; cp=p
            s=ev(sp,text,p,memo,env)
            if not s: break
            saw=True
            p=s[1]
            # lookahead: is there another element or do we keep trailer
            nxt=ev(el,text,p,memo,env)
            if nxt:
                if not disc: out.append(s[0])
                continue
            else:
                if trail:
                    if not disc: out.append(s[0])
                    cp=p
                break
        if not out and not empty: return FAIL
        if req and out and not saw: return FAIL
        # require_separator: need at least one separator seen *and consumed or not*? documented: (e s)+ e? 
        return (out,cp)
    if k in('seq','right','left','choice','opt','expect','expectnot','star'):
        # reuse proto.ev but with our ev for children: re-implement minimal
        if k=='seq':
            out=[];p=pos
            for x in e[1:]:
                r=ev(x,text,p,memo,env)
                if not r: return FAIL
                out.append(r[0]);p=r[1]
            return (out,p)
        if k in('right','left'):
            r1=ev(e[1],text,pos,memo,env)
            if not r1: return FAIL
            r2=ev(e[2],text,r1[1],memo,env)
            if not r2: return FAIL
            return ((r2[0] if k=='right' else r1[0]),r2[1])
        if k=='choice':
            for x in e[1:]:
                r=ev(x,text,pos,memo,env)
                if r: return r
            return FAIL
        if k=='opt':
            r=ev(e[1],text,pos,memo,env); return r if r else (None,pos)
        if k=='expect':
            r=ev(e[1],text,pos,memo,env); return (r[0],pos) if r else FAIL
        if k=='expectnot':
            r=ev(e[1],text,pos,memo,env); return FAIL if r else (None,pos)
        if k=='star':
            out=[];p=pos
            while True:
                r=ev(e[1],text,p,memo,env)
                if not r: break
                if r[1]<=p: raise IllFormed()
                out.append(r[0]);p=r[1]
            return (out,p)
    return ev0(e,text,pos,memo)

ELEMS=[('str','a'),('seq',('str','a'),('str','b')),('choice',('str','a'),('str','ab'))]
SEPS=[('str',','),('seq',('str',','),('str',';')),('choice',('str',','),('str',',;'))]
def cores():
    for el in ELEMS:
        yield ('rep',el,None,None)
        for m in range(0,4):
            for n in range(m,4):
                yield ('rep',el,m,n)
            yield ('rep',el,m,None)
        for n in range(0,4): yield ('rep',el,None,n)
        for form in ['{k}','{k,}','{,k}','{1,k}']: yield ('letrep',el,form)
        for sp in SEPS:
            for disc,trail,empty,req in itertools.product([True,False],repeat=4):
                if req and not trail: continue
                yield ('sep',el,sp,disc,trail,empty,req)
ALT=('str','a,b'); CONT=('str','b')
def contexts(x):
    yield x
    yield ('choice',x,('str','ab'))
    yield ('choice',x,('str','a,;'))
    yield ('seq',x,CONT)
    yield ('right',('opt',x),('re','[ab,;0-9]*'))
    yield ('right',('expect',x),('re','[ab,;0-9]*'))
    yield ('right',('expectnot',x),('re','[ab,;0-9]*'))

def inputs():
    S='ab,;'
    for L in range(0,6):
        for t in itertools.product(S,repeat=L): yield ''.join(t)
INP=list(inputs())
INPD=[d+t for d in '0123' for t in INP if len(t)<=4]

class Timeout(Exception): pass
def _alarm(*a): raise Timeout()
def init(): signal.signal(signal.SIGALRM,_alarm)

def uses_let(e):
    return e[0]=='letrep' or any(isinstance(x,tuple) and uses_let(x) for x in e[1:])

def check(e):
    from sourcer import Grammar
    desc='start = %s\n'%render(e)
    try: g=Grammar(desc)
    except Exception as ex: return [('COMPILE',desc,type(ex).__name__+':'+str(ex)[:80])]
    bad=[]
    for t in (INPD if uses_let(e) else INP):
        try: m=ev(e,t,0,{})
        except IllFormed: continue
        exp=('FAIL',) if m is None else ('OK',m[0],m[1])
        signal.setitimer(signal.ITIMER_REAL,2.0)
        try:
            try: r=g.parse(t); got=('OK',r,len(t))
            except g.PartialParseError as x: got=('OK',x.partial_result,x.last_position.index)
            except g.ParseError: got=('FAIL',)
            except Timeout: got=('TIMEOUT',)
            except Exception as x: got=('EXC',type(x).__name__,str(x)[:60])
        finally: signal.setitimer(signal.ITIMER_REAL,0)
        if got!=exp:
            bad.append((desc.strip(),t,exp,got))
            if len(bad)>=2: break
    return bad

if __name__=='__main__':
    jobs=[c for core in cores() for c in contexts(core)]
    print('jobs',len(jobs),'inputs',len(INP),len(INPD))
    t0=time.time()
    with Pool(16,initializer=init) as p: res=p.map(check,jobs,chunksize=4)
    print('time',time.time()-t0,'bad',sum(1 for r in res if r))
    cl=collections.Counter()
    shown=collections.Counter()
    for j,r in zip(jobs,res):
        if not r: continue
        core=j
        while core[0] not in('rep','letrep','sep'):
            core=[x for x in core[1:] if isinstance(x,tuple)][0] if core[0]!='right' else core[1]
            if core[0] in('opt','expect','expectnot'): core=core[1]
        key=(core[0], j[0] if j is not core else 'bare')
        cl[key]+=1
        if shown[key]<3:
            shown[key]+=1; print(key, r[0])
    print(cl)
