from sourcer import Grammar
g = Grammar(r'''
    ignore /\s+/
    start = Item*
    Item = Pair | W
    class W { w: /[a-z]+/ }
    class Pair { k: W << ":"; v: W }
''', include_source=True)
open('iso/gmod.py','w').write(g._source_code)
ga = Grammar('grammar isoa\nstart = X*\nX = "a"', include_source=True)
gb = Grammar('grammar isob extends isoa\noverride X = "b" | super.X', include_source=True)
open('iso/isoa.py','w').write(ga._source_code)
open('iso/isob.py','w').write(gb._source_code)
