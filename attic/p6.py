from sourcer import Grammar
def run(g, t, rule=None, **kw):
    try:
        r = (g if rule is None else getattr(g, rule)).parse(t, **kw)
        return ('OK', r, len(t))
    except g.PartialParseError as e:
        return ('PARTIAL', e.partial_result, e.last_position.index)
    except g.ParseError as e:
        return ('FAIL', e.position.index)
    except Exception as e:
        return ('EXC', type(e).__name__, str(e)[:100])
def G(desc, **kw):
    try:
        return Grammar(desc, **kw)
    except Exception as e:
        print('  COMPILE EXC', type(e).__name__, str(e)[:150]); return None
def show(desc, texts, rule=None, **kw):
    print('---', desc.strip().replace('\n',' ; ')[:150])
    g = G(desc)
    if g is None: return
    for t in texts: print('   ', repr(t), run(g,t,rule,**kw))

# C03 data-dependent bound zero
show(r'''
start = let n = /\d/ |> `int` in "a"{n}
''', ['0','0a','0aaa','1a','1aa','2a','2aa'])
show(r'''
start = let n = /\d/ |> `int` in "a"{,n}
''', ['0','0a','1aa'])
# C05 shadowing
show(r'''
start = let x = "a" in [(let x = "b" in `x`), `x`]
''', ['ab'])
show(r'''
start = T("q")
T(x) = let x = "a" in [`x`, "b"]
''', ['ab'])
# C06 args
show(r'''
start = let xs = "a"* in T(xs)
T(v) = "b" >> `v`
''', ['aab','b'])
show(r'''
start = T(0x61)
T(x) = x
''', [b'a'])
show(r'''
start = let w = /[ab]/ in T(/[ab]/ where `lambda y: y == w`)
T(x) = [x, x]
''', ['aaa','abb','bbb','aab'])
show(r'''
start = [Expect(T(`1`)), T(`True`)]
T(v) = "a" >> `v`
''', ['a'])
show(r'''
start = T(x="a", y="b")
T(y, x) = [x, y]
''', ['ab','ba'])
# C04 no start rule
show(r'''
ignore /\s+/
A = "a"+
''', [' a a','a a '])
show(r'''
ignore /\s+/
"a"+
''', [' a a','a a '])
show(r'''
A = "a"+
ignore /\s+/
start = A
''', [' a a','a a '])
