from sourcer import Grammar
def tryit(label, f):
    try:
        r = f()
        print(label, '->', repr(r)[:300])
    except BaseException as e:
        print(label, 'RAISED', type(e).__name__, str(e)[:200].replace('\n','\\n'))
def c13():
    A = Grammar('grammar c13a\nignore /\\s+/\nstart = W*\nW = /\\w+/')
    B = Grammar('grammar c13b extends c13a\noverride W = /[a-z]+/')
    return B.parse('ab cd'), A.parse('ab 12')
tryit('anon ignore base', c13)
def c13b():
    A = Grammar('grammar c13c\nignore Space = /\\s+/\nstart = W*\nW = /\\w+/')
    B = Grammar('grammar c13d extends c13c\nignore Comment = /#[^\\n]*/\noverride W = /[a-z]+/')
    return B.parse('ab cd #x\n ef'), B.parse(' ab')
tryit('ignore both', c13b)
def c13c():
    A = Grammar('grammar ca\nstart = X\nX = "a"')
    B = Grammar('grammar cb extends ca\noverride X = "b" | super.X')
    C = Grammar('grammar cc extends cb\noverride X = "c" | super.X')
    D = Grammar('grammar cd extends cb\nY = "y"')
    return [C.parse(t) for t in 'abc'], [D.parse(t) for t in 'ab'], [B.parse(t) for t in 'ab'], A.parse('a')
tryit('chain3', c13c)
def c13d():
    A = Grammar('grammar pk.ca\nstart = X\nX = "a"')
    B = Grammar('grammar pk.cb extends pk.ca\noverride X = "b" | super.X')
    import sys
    return [B.parse(t) for t in 'ab'], sorted(k for k in sys.modules if k.startswith('pk'))
tryit('dotted', c13d)
