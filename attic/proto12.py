# Throwaway prototype C18: re-entrancy deviations at every callback point + history sequences
import itertools, sys, collections
from sourcer import Grammar
DESC = r'''
```
HOOK = [None]
def cb(v):
    h = HOOK[0]
    return h(v) if h else v
```
ignore / +/
start = Item*
Item = Pair | W
class W { w: /[ab]+/ |> `cb` }
class Pair { k: W << ":"; v: W }
'''
def canon(g,v):
    if isinstance(v,list): return [canon(g,x) for x in v]
    if isinstance(v,g.ParsedObject):
        pi=v._metadata.position_info
        return (type(v).__name__,(pi.start.index,pi.end.index) if hasattr(pi,'start') else ('RAW',pi),tuple((f,canon(g,getattr(v,f))) for f in v._fields))
    return v
def outcome(g,f,*a):
    try: return ('OK',canon(g,f(*a)))
    except g.PartialParseError as e: return ('PARTIAL',canon(g,e.partial_result),e.last_position.index)
    except g.ParseError as e: return ('FAIL',e.position.index)
    except Exception as e: return ('EXC',type(e).__name__,str(e)[:60])
class Boom(Exception): pass
def run():
    g=Grammar(DESC)
    calls=[('parse','a:b ab'),('parse','a: !'),('parse',' b'),('W','ab'),('parse','a:b a:')]
    def do(c): 
        f=g.parse if c[0]=='parse' else getattr(g,c[0]).parse
        return outcome(g,f,c[1])
    base={c:do(c) for c in calls}
    # count callbacks per call
    n_exec=0; bad=[]
    for c in calls:
        cnt=[0]
        def counter(v): cnt[0]+=1; return v
        g.HOOK[0]=counter; do(c); g.HOOK[0]=None
        ncb=cnt[0]
        for k in range(ncb):
            for dev in ['nested-discard','nested-embed','raise']:
                for inner in calls:
                    if dev=='raise' and inner is not calls[0]: continue
                    idx=[0]; innerout=[]
                    def hook(v):
                        i=idx[0]; idx[0]+=1
                        if i!=k: return v
                        if dev=='raise': raise Boom()
                        g.HOOK[0]=None
                        try:
                            f=g.parse if inner[0]=='parse' else getattr(g,inner[0]).parse
                            try: r=f(inner[1]); innerout.append(('OK',canon(g,r)))
                            except g.PartialParseError as e: r=e.partial_result; innerout.append(('PARTIAL',canon(g,r),e.last_position.index))
                            except g.ParseError as e: r=None; innerout.append(('FAIL',e.position.index))
                        finally: g.HOOK[0]=hook
                        return v if dev=='nested-discard' else (v, r)
                    g.HOOK[0]=hook
                    o=do(c); g.HOOK[0]=None
                    n_exec+=1
                    # oracle: inner outcome equals isolated; outer equals base (discard) ; after: all calls equal base
                    if dev!='raise' and innerout and innerout[0]!=base[inner]: bad.append(('inner',c,k,dev,inner,innerout[0],base[inner]))
                    if dev=='nested-discard' and o!=base[c]: bad.append(('outer',c,k,dev,inner,o))
                    if dev=='raise' and not (o[0]=='EXC' and o[1]=='Boom'): bad.append(('raise',c,k,o))
                    if dev=='nested-embed' and o[0]=='EXC': bad.append(('embed',c,k,inner,o))
                    for c2 in calls:
                        if do(c2)!=base[c2]: bad.append(('after',c,k,dev,c2))
    print('deviation executions',n_exec,'bad',len(bad))
    cl=collections.Counter((b[0],) for b in bad); print(cl)
    for b in bad[:3]: print(str(b)[:300])
    # histories: all sequences of length<=3 over calls (+ raising call): each result equals base
    n=0;badh=0
    ops=calls+[('RAISE','a:b ab')]
    for L in (1,2,3):
        for seq in itertools.product(ops,repeat=L):
            g2=Grammar(DESC)
            for c in seq:
                n+=1
                if c[0]=='RAISE':
                    def hk(v): raise Boom()
                    g2.HOOK[0]=hk; outcome(g2,g2.parse,c[1]); g2.HOOK[0]=None
                else:
                    f=g2.parse if c[0]=='parse' else getattr(g2,c[0]).parse
                    if outcome(g2,f,c[1])!=base[c]: badh+=1
    print('history ops',n,'bad',badh)
run()
