# Throwaway prototype: bounded-exhaustive C01 exploration against a definitional PEG interpreter.
import re, sys, time, itertools, collections, signal, os
from multiprocessing import Pool

# ---- AST: tuples ----
LEAVES = [
    ('str','a'), ('str','b'), ('str','ab'), ('str',''), ('stri','a'),
    ('re','a+'), ('re','b?'), ('ref','Rab'), ('ref','Ra'), ('fail',), ('back',1),
]
if os.environ.get('SMALL'): LEAVES=[('str','a'),('str','ab'),('re','b?'),('ref','Rab'),('back',1)]
AUX = {'Rab': ('seq', ('str','a'), ('str','b')), 'Ra': ('str','a')}
UN = ['opt','star','plus','expect','expectnot','skip']
BIN = ['seq','right','left','choice','longest']

def render(e):
    k = e[0]
    if k=='str': return repr(e[1]).replace("'",'"') if "'" not in e[1] else repr(e[1])
    if k=='stri': return '"%s"i' % e[1]
    if k=='re': return '/%s/' % e[1]
    if k=='ref': return e[1]
    if k=='fail': return 'Fail()'
    if k=='back': return 'Backtrack(%d)' % e[1]
    if k=='opt': return 'Opt(%s)' % render(e[1])
    if k=='star': return '(%s)*' % render(e[1])
    if k=='plus': return '(%s)+' % render(e[1])
    if k=='expect': return 'Expect(%s)' % render(e[1])
    if k=='expectnot': return 'ExpectNot(%s)' % render(e[1])
    if k=='skip': return 'Skip(%s)' % ', '.join(render(x) for x in e[1:])
    if k=='seq': return '[%s]' % ', '.join(render(x) for x in e[1:])
    if k=='right': return '(%s >> %s)' % (render(e[1]), render(e[2]))
    if k=='left': return '(%s << %s)' % (render(e[1]), render(e[2]))
    if k=='choice': return '(%s)' % ' | '.join(render(x) for x in e[1:])
    if k=='longest': return 'Longest(%s)' % ', '.join(render(x) for x in e[1:])
    raise Exception(k)

class IllFormed(Exception): pass
FAIL = None
def ev(e, text, pos, memo):
    """returns (value,end) or None"""
    k = e[0]
    if k=='str':
        v=e[1]; return (v,pos+len(v)) if text.startswith(v,pos) else FAIL
    if k=='stri':
        m = re.compile(re.escape(e[1]), re.I).match(text,pos); return (m.group(0), m.end()) if m else FAIL
    if k=='re':
        m = re.compile(e[1]).match(text,pos); return (m.group(0), m.end()) if m else FAIL
    if k=='ref':
        key=(e[1],pos)
        if key not in memo: memo[key]=ev(AUX[e[1]],text,pos,memo)
        return memo[key]
    if k=='fail': return FAIL
    if k=='back': return (None,pos-e[1]) if pos>=e[1] else FAIL
    if k=='opt':
        r=ev(e[1],text,pos,memo); return r if r else (None,pos)
    if k in('star','plus'):
        out=[]; 
        while True:
            r=ev(e[1],text,pos,memo)
            if not r: break
            if r[1]<=pos: raise IllFormed()
            out.append(r[0]); pos=r[1]
        if k=='plus' and not out: return FAIL
        return (out,pos)
    if k=='expect':
        r=ev(e[1],text,pos,memo); return (r[0],pos) if r else FAIL
    if k=='expectnot':
        r=ev(e[1],text,pos,memo); return FAIL if r else (None,pos)
    if k=='skip':
        while True:
            for x in e[1:]:
                r=ev(x,text,pos,memo)
                if r:
                    if r[1]==pos: 
                        # always-succeeding w/o progress: move on; non-always: ill-formed (impl loops)
                        raise IllFormed()
                    pos=r[1]; break
            else:
                return (None,pos)
    if k=='seq':
        out=[]
        for x in e[1:]:
            r=ev(x,text,pos,memo)
            if not r: return FAIL
            out.append(r[0]); pos=r[1]
        return (out,pos)
    if k in('right','left'):
        r1=ev(e[1],text,pos,memo)
        if not r1: return FAIL
        r2=ev(e[2],text,r1[1],memo)
        if not r2: return FAIL
        return ((r2[0] if k=='right' else r1[0]), r2[1])
    if k=='choice':
        for x in e[1:]:
            r=ev(x,text,pos,memo)
            if r: return r
        return FAIL
    if k=='longest':
        best=None
        for x in e[1:]:
            r=ev(x,text,pos,memo)
            if r and (best is None or r[1]>best[1]): best=r
        return best
    raise Exception(k)

def nullable(e):
    k=e[0]
    if k=='str': return e[1]==''
    if k=='stri': return False
    if k=='re': return e[1]=='b?'
    if k=='ref': return nullable(AUX[e[1]])
    if k=='fail': return False
    if k=='back': return True
    if k in('opt','star','expect','expectnot','skip'): return True
    if k=='plus': return nullable(e[1])
    if k in('seq','right','left'): return all(nullable(x) for x in e[1:])
    if k in('choice','longest'): return any(nullable(x) for x in e[1:])
def hasback(e):
    return e[0]=='back' or any(isinstance(x,tuple) and hasback(x) for x in e[1:])
def wellformed(e):
    k=e[0]
    for x in e[1:]:
        if isinstance(x,tuple) and not wellformed(x): return False
    if k in('star','plus','skip'):
        for x in e[1:]:
            if nullable(x) or hasback(x): return False
    return True

def gen(nops):
    if nops==0:
        yield from LEAVES; return
    for u in UN:
        for c in gen(nops-1): yield (u,c)
    for b in BIN:
        for i in range(nops):
            for l in gen(i):
                for r in gen(nops-1-i): yield (b,l,r)

SIGMA='abA'
def inputs(n):
    for L in range(n+1):
        for t in itertools.product(SIGMA,repeat=L): yield ''.join(t)
INPUTS=list(inputs(4))

class Timeout(Exception): pass
def _alarm(*a): raise Timeout()

def check(e):
    from sourcer import Grammar
    desc = 'start = %s\nRab = ["a", "b"]\nRa = "a"\n' % render(e)
    try:
        g = Grammar(desc)
    except Exception as ex:
        return [('COMPILE', desc, type(ex).__name__+':'+str(ex)[:80])]
    bad=[]
    for t in INPUTS:
        try:
            m = ev(e,t,0,{})
        except IllFormed:
            continue
        exp = ('FAIL',) if m is None else ('OK', m[0], m[1])
        signal.setitimer(signal.ITIMER_REAL, 2.0)
        try:
            try:
                r = g.parse(t); got=('OK', r, len(t))
            except g.PartialParseError as x:
                got=('OK', x.partial_result, x.last_position.index)
            except g.ParseError as x:
                got=('FAIL',)
            except Timeout:
                got=('TIMEOUT',)
            except Exception as x:
                got=('EXC', type(x).__name__, str(x)[:60])
        finally:
            signal.setitimer(signal.ITIMER_REAL, 0)
        if got!=exp:
            bad.append(('DIFF', desc.split('\n')[0], t, exp, got))
            if len(bad)>=3: break
    return bad

def init():
    signal.signal(signal.SIGALRM,_alarm)
    pass

if __name__=='__main__':
    nops=int(sys.argv[1])
    exprs=[e for n in range(nops+1) for e in gen(n) if wellformed(e)]
    print('exprs',len(exprs),'inputs',len(INPUTS))
    t0=time.time()
    with Pool(16,initializer=init) as p:
        res=p.map(check,exprs,chunksize=50)
    dt=time.time()-t0
    nbad=sum(1 for r in res if r)
    print('time',dt,'bad exprs',nbad)
    import json
    clusters=collections.Counter()
    shown=0
    for e,r in zip(exprs,res):
        if r:
            clusters[(r[0][0], r[0][-1][0] if r[0][0]=='DIFF' else r[0][2][:40])]+=1
            if shown<40:
                print(r[0]); shown+=1
    print(clusters)
