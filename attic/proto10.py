# Throwaway prototype C13: inheritance chains vs late-binding model
import re, sys, itertools, signal, collections, time, os
from multiprocessing import Pool
import proto5
from proto5 import Model, Obj, R, FAIL, IllFormed, inputs

# A grammar level: dict name -> ('rule',None,expr) ; plus 'ignores': list of patterns ; exprs may contain ('super',name)
class ChainModel:
    def __init__(s, levels, top):
        s.levels=levels[:top+1]   # list of (rules, ignores)
        s.top=top
    def lookup(s,name,upto=None):
        upto=s.top if upto is None else upto
        for lv in range(upto,-1,-1):
            if name in s.levels[lv][0]: return lv,s.levels[lv][0][name]
        raise KeyError(name)
    def chain_has_ignore(s,lv):
        return any(s.levels[i][1] for i in range(0,lv+1))
    def all_ignores(s):
        out=[]
        for lv in range(s.top,-1,-1): out+=s.levels[lv][1]
        return out
    def skip(s,pos):
        pats=s.all_ignores()
        while True:
            for pat in pats:
                m=re.compile(pat).match(s.text,pos)
                if m and m.end()>pos: pos=m.end(); break
            else: return pos
    def parse(s,entry,text,pos=0):
        s.text=text; s.memo={}
        return s.call(entry,pos)
    def call(s,name,pos,upto=None):
        lv,d=s.lookup(name,upto)
        key=(lv,name,pos)
        if key in s.memo: return s.memo[key]
        p=pos
        if name=='start' and s.chain_has_ignore(lv): p=s.skip(pos)
        if d[0]=='rule':
            r=s.ev(d[2],p,lv)
        else:
            fields=[];q=p;r=None
            for (mn,om,ex) in d[2]:
                rr=s.ev(ex,q,lv)
                if not rr: r=FAIL; break
                q=rr[1]
                if mn and not om: fields.append((mn,rr[0]))
            else: r=(Obj(name,tuple(fields),(pos,q)),q)
        s.memo[key]=r
        return r
    def ev(s,e,pos,lv):
        text=s.text;k=e[0]
        if k=='str':
            v=e[1]
            if not text.startswith(v,pos): return FAIL
            end=pos+len(v)
            return (v, s.skip(end) if s.chain_has_ignore(lv) else end)
        if k=='ref': return s.call(e[1],pos)
        if k=='super': return s.call(e[1],pos,upto=lv-1)
        if k=='seq':
            out=[];p=pos
            for x in e[1:]:
                r=s.ev(x,p,lv)
                if not r: return FAIL
                out.append(r[0]);p=r[1]
            return (out,p)
        if k=='choice':
            for x in e[1:]:
                r=s.ev(x,pos,lv)
                if r: return r
            return FAIL
        if k=='star':
            out=[];p=pos
            while True:
                r=s.ev(e[1],p,lv)
                if not r: break
                if r[1]<=p: raise IllFormed()
                out.append(r[0]);p=r[1]
            return (out,p)
        raise Exception(k)

def RR(e):
    if e[0]=='super': return 'super.%s'%e[1]
    if e[0] in('seq','choice','star'):
        return proto5.R(tuple([e[0]]+[('ref',RR(x)) if x[0]=='super' else (('raw',RR(x))) for x in e[1:]]))
    return proto5.R(e)
_R=proto5.R
def _Rp(e):
    if e[0]=='raw': return e[1]
    return _R(e)
proto5.R=_Rp

def render_level(name,parent,rules,ignores,ignstyle,parent_names):
    out=['grammar %s%s'%(name,' extends %s'%parent if parent else '')]
    for i,pat in enumerate(ignores):
        out.append(('ignore Ig%s%d = /%s/'%(name[-1].upper(),i,pat)) if ignstyle=='named' else 'ignore /%s/'%pat)
    for n,d in rules.items():
        ov='override ' if n in parent_names else ''
        if d[0]=='rule': out.append('%s%s = %s'%(ov,n,RR(d[2])))
        else:
            ms=['    %s: %s'%(mn,RR(ex)) for (mn,om,ex) in d[2]]
            out.append('class %s {\n%s\n}'%(n,'\n'.join(ms)))
    if parent: out.append('Zz%s = "z"'%name[-1])
    return '\n'.join(out)+'\n'

def conv(g,v):
    if isinstance(v,list): return [conv(g,x) for x in v]
    if isinstance(v,g.ParsedObject): return Obj(type(v).__name__,tuple((f,conv(g,getattr(v,f))) for f in v._fields),None)
    return v
class Timeout(Exception): pass
def _alarm(*a): raise Timeout()
_cnt=[0]
def run_impl(g,ent,t):
    signal.setitimer(signal.ITIMER_REAL,0.5)
    try:
        try:
            f=g.parse if ent is None else getattr(g,ent).parse
            r=f(t); return ('OK',conv(g,r),len(t))
        except g.PartialParseError as x: return ('OK',conv(g,x.partial_result),x.last_position.index)
        except g.ParseError: return ('FAIL',)
        except Timeout: return ('TIMEOUT',)
        except Exception as x: return ('EXC',type(x).__name__,str(x)[:60])
    finally: signal.setitimer(signal.ITIMER_REAL,0)

def check(job):
    levels,ignstyle,INP,dotted=job
    from sourcer import Grammar
    signal.signal(signal.SIGALRM,_alarm)
    _cnt[0]+=1
    pre=('pk%d_%d.'%(os.getpid(),_cnt[0])) if dotted else ''
    names=[pre+'g%d_%d_%s'%(os.getpid(),_cnt[0],c) for c in 'abc'[:len(levels)]]
    mods=[];descs=[]
    pn=set()
    try:
        for i,(rules,igs) in enumerate(levels):
            d=render_level(names[i],names[i-1] if i else None,rules,igs,ignstyle,pn)
            descs.append(d)
            signal.setitimer(signal.ITIMER_REAL,5)
            try: mods.append(Grammar(d))
            except Timeout: return [('COMPILE',' || '.join(descs).replace('\n',' ; '),'TIMEOUT')]
            except Exception as ex: return [('COMPILE',' || '.join(descs).replace('\n',' ; '),type(ex).__name__+':'+str(ex)[:80])]
            finally: signal.setitimer(signal.ITIMER_REAL,0)
            pn|=set(rules)
        bad=[]
        for top in range(len(levels)):
            m=ChainModel(levels,top)
            allnames=set().union(*[set(l[0]) for l in levels[:top+1]])
            ownnames=set(levels[top][0])
            for ent in [None]+sorted(ownnames if os.environ.get('OWN','1')=='1' else allnames):
                for t in INP:
                    try:
                        r=m.parse(ent or 'start',t)
                    except IllFormed: continue
                    def mc(v):
                        if isinstance(v,list): return [mc(x) for x in v]
                        if isinstance(v,Obj): return Obj(v.cls,tuple((f,mc(x)) for f,x in v.fields),None)
                        return v
                    exp=('FAIL',) if r is None else ('OK',mc(r[0]),r[1])
                    got=run_impl(mods[top],ent,t)
                    if got!=exp:
                        bad.append((' || '.join(descs).replace('\n',' ; '),top,ent,t,exp,got)); return bad
        return bad
    finally:
        for n in names:
            sys.modules.pop(n,None)

A=('str','a');B=('str','b');C=('str','c')
def universe(maxlen,withign):
    INP=list(inputs('abc ',3))+['a b','ab c',' ab','abab','ca b']
    base={'start':('rule',None,('star',('choice',('ref','X'),('ref','Y')))),'X':('rule',None,A),'Y':('class',None,[('y',False,('seq',B,('ref','X')))])}
    def variants(name,lvl):
        # inherit / override / override-with-super
        yield None
        if name=='X':
            yield ('rule',None,C if lvl==1 else ('str','ca'))
            yield ('rule',None,('choice',C if lvl==1 else ('str','ca'),('super','X')))
        if name=='Y':
            yield ('class',None,[('y',False,('seq',C,('ref','X')))])
            yield ('rule',None,('choice',('seq',C,('ref','X')),('super','Y')))
        if name=='start':
            yield ('rule',None,('seq',('ref','X'),('ref','Y')))
            yield ('rule',None,('choice',('seq',C,C),('super','start')))
    igncfgs=[([],[],[])]
    if withign:
        igncfgs+=[([' +'],[],[]),([],[' +'],[]),([' +'],['~+'],[]),([],[],[' +']),([' +'],[],['~+'])]
    for L in range(2,maxlen+1):
        per=[list(itertools.product(*[list(variants(n,lv)) for n in ('start','X','Y')])) for lv in range(1,L)]
        for combo in itertools.product(*per):
            for ig in igncfgs:
                if L==2 and ig[2]: continue
                for ignstyle in (['named','anon'] if any(ig) else ['named']):
                    levels=[(base,ig[0])]
                    for lv,ch in enumerate(combo,1):
                        rules={n:d for n,d in zip(('start','X','Y'),ch) if d is not None}
                        levels.append((rules,ig[lv]))
                    yield (levels,ignstyle,INP,False)
if __name__=='__main__':
    maxlen=int(sys.argv[1]); withign=int(sys.argv[2])
    jobs=list(universe(maxlen,withign)); print('jobs',len(jobs))
    t0=time.time()
    with Pool(16) as p: res=p.map(check,jobs,chunksize=1)
    print('time',time.time()-t0,'bad',sum(1 for r in res if r))
    cl=collections.Counter()
    for j,r in zip(jobs,res):
        if r:
            b=r[0]
            sig=(b[0],b[2][:60]) if b[0]=='COMPILE' else ('DIFF',b[4][0],b[5][0],b[5][1] if b[5][0]=='EXC' else '')
            cl[sig]+=1
            if cl[sig]<=2: print(str(b)[:900])
    for k,v in cl.items(): print(v,k)
