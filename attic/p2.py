import traceback, copy, pickle
from sourcer import Grammar
def tryit(label, f):
    try:
        r = f()
        print(label, '->', repr(r)[:300])
    except BaseException as e:
        print(label, 'RAISED', type(e).__name__, str(e)[:200].replace('\n','\\n'))

# C04: class start + ignore
tryit('C04 class start+ignore', lambda: Grammar(r'''
    ignore /\s+/
    class Start { a: "a"; b: "b" }
''').parse(' a b'))

# C08: empty string with class matching nothing
def c08():
    g = Grammar(r'''
        class Start { a: "a"? }
    ''')
    return g.parse('')
tryit('C08 empty class', c08)
def c08b():
    g = Grammar(r'''
        class Start { a: "a"? }
    ''')
    return g.parse('b', fullparse=False)
tryit('C08 empty class on b nofull', c08b)

# C14 deepcopy
def c14():
    g = Grammar(r'''
        class Start { a: "a" }
    ''')
    r = g.parse('a')
    return copy.deepcopy(r)
tryit('C14 deepcopy', c14)

# C17: nesting around rule ref
def c17():
    depth=30
    s = 'start = ' + '['*depth + 'X' + ']'*depth + '\nX = "x"'
    g = Grammar(s)
    return g.parse('x')
tryit('C17 nested ref', c17)
def c17b():
    depth=30
    s = 'ignore /\\s+/\nstart = ' + '['*depth + '"x"' + ']'*depth
    g = Grammar(s)
    return g.parse('x')
tryit('C17 nested lit w/ ignore', c17b)

# C20: names
tryit('C20 value2', lambda: Grammar(r'''
    class Start { value2: "a"; b: "b"; c: "c" }
''').parse('abc'))
def c20b():
    g = Grammar(r'''
    list = "a"
    class Start { a: list }
    ''')
    r = g.parse('a')
    return list(g.visit(r))
tryit('C20 list', c20b)

# C13: anon ignore in base
def c13():
    A = Grammar(r'''
        grammar c13a
        ignore /\s+/
        start = W*
        W = /\w+/
    ''')
    B = Grammar(r'''
        grammar c13b extends c13a
        override W = /[a-z]+/
    ''')
    return B.parse('ab cd')
tryit('C13 anon ignore base', c13)
def c13b():
    A = Grammar(r'''
        grammar c13c
        ignore Space = /\s+/
        start = W*
        W = /\w+/
    ''')
    B = Grammar(r'''
        grammar c13d extends c13c
        ignore Comment = /#[^\n]*/
        override W = /[a-z]+/
    ''')
    return B.parse('ab cd #x\n ef')
tryit('C13 ignore both', c13b)
def c13c():
    A = Grammar('grammar ca\nstart = X\nX = "a"')
    B = Grammar('grammar cb extends ca\noverride X = "b" | super.X')
    C = Grammar('grammar cc extends cb\noverride X = "c" | super.X')
    return [C.parse(t) for t in 'abc']
tryit('C13 chain3', c13c)
def c13d():
    A = Grammar('grammar pk.ca\nstart = X\nX = "a"')
    B = Grammar('grammar pk.cb extends pk.ca\noverride X = "b" | super.X')
    return [B.parse(t) for t in 'ab']
tryit('C13 dotted', c13d)
