# Cross-check: declarative tree filter vs Pratt on abstract token runs
import itertools, sys, collections
# abstract tokens: ('opd',), ('pre',L), ('post',L), ('inf',L,A)
def pratt(groups):
    toks=[]
    for gi,(pend,pre,post) in enumerate(groups):
        if pend: toks.append(pend+(gi,))
        for t in pre: toks.append(t+(gi,))
        toks.append(('opd',gi))
        for t in post: toks.append(t+(gi,))
    i=[0]; stop=[False]; last=[-1]
    def nud():
        t=toks[i[0]]; i[0]+=1
        if t[0]=='pre': return ('P',t[1],parse(t[1]))
        last[0]=t[-1]; return ('o',t[-1])
    def parse(mx):
        left=nud()
        while i[0]<len(toks) and not stop[0]:
            t=toks[i[0]]
            if t[0]=='post':
                if t[1]>mx: break
                i[0]+=1; left=('Q',left,t[1]); continue
            if t[0]=='inf':
                L,A=t[1],t[2]
                if L>mx: break
                if A=='n' and left[0]=='I' and left[2]==L: stop[0]=True; break
                i[0]+=1
                right=parse(L if A=='r' else L-1)
                left=('I',left,L,right,A); continue
            break
        return left
    tree=parse(10**6)
    return tree,last[0]+1     # number of groups consumed

def flat(groups):
    toks=[]
    for gi,(pend,pre,post) in enumerate(groups):
        if pend: toks.append(pend)
        toks.extend(pre); toks.append(('opd',gi)); toks.extend(post)
    return toks
def trees(toks,i,j,memo):
    key=(i,j)
    if key in memo: return memo[key]
    out=[]
    if j-i==1 and toks[i][0]=='opd': out.append(('o',toks[i][1]))
    if j-i>=2:
        if toks[i][0]=='pre':
            for r in trees(toks,i+1,j,memo): out.append(('P',toks[i][1],r))
        if toks[j-1][0]=='post':
            for l in trees(toks,i,j-1,memo): out.append(('Q',l,toks[j-1][1]))
        for k in range(i+1,j-1):
            if toks[k][0]=='inf':
                for l in trees(toks,i,k,memo):
                    for r in trees(toks,k+1,j,memo):
                        out.append(('I',l,toks[k][1],r,toks[k][2]))
    memo[key]=out
    return out
def rexp(t):   # right-exposed operators: list of (kind,level,assoc)
    if t[0]=='I': return [('I',t[2],t[4])]+rexp(t[3])
    if t[0]=='P': return [('P',t[1],None)]+rexp(t[2])
    return []
def lexp(t):
    if t[0]=='I': return [('I',t[2],t[4])]+lexp(t[1])
    if t[0]=='Q': return [('Q',t[2],None)]+lexp(t[1])
    return []
def valid(t):
    if t[0]=='o': return True
    if t[0]=='I':
        L,A=t[2],t[4]
        if not valid(t[1]) or not valid(t[3]): return False
        for (k,l,a) in rexp(t[1]):
            if not (l<L or (l==L and A=='l')): return False
        for (k,l,a) in lexp(t[3]):
            if not (l<L or (l==L and A=='r')): return False
        return True
    if t[0]=='P':
        if not valid(t[2]): return False
        return all(l<t[1] for (k,l,a) in lexp(t[2]))
    if t[0]=='Q':
        if not valid(t[1]): return False
        return all(l<t[2] for (k,l,a) in rexp(t[1]))
def declarative(groups):
    for n in range(len(groups),0,-1):
        toks=flat(groups[:n])
        vs=[t for t in trees(toks,0,len(toks),{}) if valid(t)]
        if vs: return vs,n
    return [],0

def tables(nrows):
    # each row: kind in l,r,n,pre,post ; rows are levels 0..n-1
    for kinds in itertools.product(['l','r','n','pre','post'],repeat=nrows):
        yield kinds
def group_space(kinds,maxtok):
    pres=[('pre',L) for L,k in enumerate(kinds) if k=='pre']
    posts=[('post',L) for L,k in enumerate(kinds) if k=='post']
    infs=[('inf',L,k) for L,k in enumerate(kinds) if k in 'lrn']
    # enumerate group sequences with total tokens <= maxtok
    def prelists(m):
        for n in range(m+1):
            for c in itertools.product(pres,repeat=n): yield list(c)
    def postlists(m):
        for n in range(m+1):
            for c in itertools.product(posts,repeat=n): yield list(c)
    def rec(groups,used):
        if groups: yield groups
        if used>=maxtok: return
        pend_opts=[None] if not groups else infs
        for pend in pend_opts:
            u=used+(1 if pend else 0)
            for pre in prelists(maxtok-u-1):
                for post in postlists(maxtok-u-1-len(pre)):
                    g=(pend,pre,post)
                    nu=u+len(pre)+1+len(post)
                    if nu<=maxtok:
                        yield from rec(groups+[g],nu)
    yield from rec([],0)
if __name__=='__main__':
    nrows=int(sys.argv[1]); maxtok=int(sys.argv[2])
    n=0; bad=0; multi=0
    for kinds in tables(nrows):
        for groups in group_space(kinds,maxtok):
            n+=1
            pt,pn=pratt(groups)
            vs,dn=declarative(groups)
            if len(vs)!=1: multi+=1
            if len(vs)!=1 or vs[0]!=pt or dn!=pn:
                bad+=1
                if bad<=8: print(kinds,groups,'\n  pratt',pt,pn,'\n  decl',vs[:3],dn)
    print('runs',n,'bad',bad,'nonunique',multi)
