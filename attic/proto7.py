# Throwaway prototype E2: visit / traverse / transform / eq-hash on enumerated object graphs
import itertools, sys, copy, collections
from sourcer import Grammar
g = Grammar(r'''
    class K0 { pass "0" }
    class K1 { a: "1" }
    class K2 { a: "2"; b: "3" }
''')
K0,K1,K2,PO=g.K0,g.K1,g.K2,g.ParsedObject
def leaves():
    s1=''.join(['a','b']); s2=''.join(['a','b'])   # equal, distinct objects
    return [None, 1, 'x', s1, s2]
def build_level(pool):
    """all containers/objects with children drawn from pool (by identity)"""
    out=[]
    out.append(('K0',lambda: K0()))
    for a in pool: out.append(('K1',lambda a=a: K1(a)))
    for a in pool:
        for b in pool: out.append(('K2',lambda a=a,b=b: K2(a,b)))
    for n in (0,1,2):
        for c in itertools.product(pool,repeat=n):
            out.append(('list',lambda c=c: list(c)))
            out.append(('tuple',lambda c=c: tuple(c)))
    for a in pool: out.append(('dict',lambda a=a: {'k':a}))
    for a in pool:
        for b in pool: out.append(('dict2',lambda a=a,b=b: {'k':a,'j':b}))
    return [f() for _,f in out]
def iscont(x): return isinstance(x,(list,tuple,dict,PO))
def children(x):
    if isinstance(x,(list,tuple)): return list(enumerate(x))
    if isinstance(x,dict): return list(x.items())
    if isinstance(x,PO): return [(f,getattr(x,f)) for f in x._fields]
    return []
def ref_visit(root):
    seen=set(); out=[]
    def rec(x):
        if isinstance(x,PO):
            if id(x) in seen: return
            seen.add(id(x)); out.append(x)
        for _,c in children(x): rec(c)
    rec(root); return out
def ref_traverse(root):
    seen=set(); out=[]
    def rec(parent,field,x):
        out.append((id(parent) if parent is not None else None,field,id(x),False))
        if iscont(x) and id(x) not in seen:
            seen.add(id(x))
            for f,c in children(x): rec(x,f,c)
        out.append((id(parent) if parent is not None else None,field,id(x),True))
    rec(None,None,root); return out
def impl_traverse(root):
    return [(id(t.parent) if t.parent is not None else None,t.field,id(t.child),t.is_finished) for t in g.traverse(root)]
def main():
    L=leaves()
    lvl1=build_level(L)
    pool2=L+[x for x in lvl1 if True][:0]
    # level 2: children from leaves + a few level-1 representatives incl. shared ones
    reps=[K0(),K1('x'),K2(None,None),[None,None],[1],(1,1),{'k':None}]
    lvl2=build_level(L[:3]+reps)
    roots=lvl1+lvl2
    print('roots',len(roots))
    bad=collections.Counter(); first={}
    for r in roots:
        if [id(x) for x in g.visit(r)]!=[id(x) for x in ref_visit(r)]:
            bad['visit']+=1; first.setdefault('visit',repr(r))
        if impl_traverse(r)!=ref_traverse(r):
            bad['traverse']+=1; first.setdefault('traverse',repr(r))
        # transform identity
        try:
            snap=repr(r)
            t=g.transform(r,lambda n:n)
            if repr(t)!=snap or repr(r)!=snap: bad['transform-id']+=1; first.setdefault('transform-id',repr(r))
        except Exception as e:
            bad['transform-exc:'+type(e).__name__]+=1; first.setdefault('transform-exc',repr(r))
        # hash/eq on objects
        if isinstance(r,PO):
            try:
                c=eval(repr(r),vars(g))
                if not (c==r and r==c and hash(c)==hash(r)): bad['eqhash']+=1; first.setdefault('eqhash',repr(r))
            except Exception as e:
                bad['eqhash-exc:'+type(e).__name__]+=1; first.setdefault('eqhash-exc',(repr(r),str(e)[:80]))
            try:
                d=copy.deepcopy(r)
                if d!=r: bad['deepcopy-ne']+=1
            except Exception as e:
                bad['deepcopy-exc:'+type(e).__name__]+=1
    print(bad); 
    for k,v in first.items(): print(k,v)
main()
