from sourcer import Grammar
def run(g, t, rule=None):
    try:
        r = (g if rule is None else getattr(g, rule)).parse(t)
        return ('OK', r, len(t))
    except g.PartialParseError as e:
        return ('PARTIAL', e.partial_result, e.last_position.index)
    except g.ParseError as e:
        return ('FAIL', e.position.index)
    except Exception as e:
        return ('EXC', type(e).__name__, str(e)[:100])

g = Grammar(r'''
    start = "1" between { left: "+" }
''')
for t in ['1','1+','1+1','1+1+','+1','']:
    print(repr(t), run(g,t))
print('--- prefix & nonassoc same spelling')
g = Grammar(r'''
    start = /\d/ between { prefix: "-"
      infix: "-" }
''')
for t in ['1-2','1-2-3','-1','1--2', '1-2--3']:
    print(repr(t), run(g,t))
print('--- prefix literal operand in choice')
g = Grammar(r'''
    start = ("1" between { prefix: "-" }) | "-x"
''')
for t in ['-1','-x','1']:
    print(repr(t), run(g,t))
print('--- postfix/infix same spelling')
g = Grammar(r'''
    start = /\d/ between { postfix: "+"
      left: "+" }
''')
for t in ['1+2','1+','1++2']:
    print(repr(t), run(g,t))
print('--- low prefix')
g = Grammar(r'''
    start = /[a-z]/ between { left: "*"
      left: "+"
      prefix: "-" }
''')
for t in ['a*-b+c','-a+b','a+-b*c']:
    print(repr(t), run(g,t))
