from sourcer import Grammar
def spans(g, r):
    return [(type(o).__name__, o._metadata.position_info.start.index, o._metadata.position_info.end.index) for o in g.visit(r)]
def run(g, t, rule=None, **kw):
    try:
        r = (g if rule is None else getattr(g, rule)).parse(t, **kw)
        return ('OK', r, spans(g,r))
    except g.PartialParseError as e:
        return ('PARTIAL', e.partial_result, e.last_position.index, spans(g,e.partial_result))
    except g.ParseError as e:
        return ('FAIL', e.position.index)
    except Exception as e:
        return ('EXC', type(e).__name__, str(e)[:100])
# class as start with ignore can't compile today; use class referenced from start
g = Grammar(r'''
    ignore / +/
    start = C*
    class C { a: "a"; b: D? }
    class D { d: "b" }
''')
for t in [' a b a', 'a  a', ' a', 'ab  x']:
    print(repr(t), run(g,t))
print(run(g, ' a b', rule='C'), run(g, 'a b ', rule='C'), run(g,'xa b', rule='C', pos=1))
# memo reuse + lookahead
g2 = Grammar(r'''
    start = [Expect(C), C, Expect(C)?]
    class C { a: "a"+ }
''')
r = g2.parse('aa')
print(run(g2,'aa'), r[0] is r[1])
# abandoned alternative
g3 = Grammar(r'''
    start = [C, "x"] | [C, "y"] | D
    class C { a: "a" }
    class D { a: "a"; b: "z" }
''')
print(run(g3,'ay'), run(g3,'az'))
# zero-width class in middle
g4 = Grammar(r'''
    start = ["a", E, "b"]
    class E { e: "x"? }
''')
print(run(g4,'ab'), run(g4,'axb'))
# operator table with class-valued postfix, spans of Infix?
g5 = Grammar(r'''
    start = N between { postfix: Args
        left: "+" }
    class N { n: /\d/ }
    class Args { args: "(" >> (N // ",") << ")" }
''')
r=g5.parse('1+2(3)')
print(r, spans(g5,r), [ (type(o).__name__, o._metadata.position_info) for o in g5.visit(r)][:2])
