# Throwaway prototype for C02: operator tables vs Pratt reference
import re, sys, time, itertools, collections, signal, os
from multiprocessing import Pool

KINDS=['left','right','infix','prefix','postfix']
OPSETS=[['+'],['-'],['++'],['+','-'],['+','++'],['++','+']]
ROWTYPES=[(k,tuple(o)) for k in KINDS for o in OPSETS]+[('mixfix',('(',))]

def render(table, litoperand):
    rows=[]
    for k,ops in table:
        if k=='mixfix': rows.append('    mixfix: "(" >> E << ")"')
        else: rows.append('    %s: %s' % (k, ', '.join('"%s"'%o for o in ops)))
    operand = '"1"' if litoperand else 'N'
    return 'E = %s between {\n%s\n}\nN = "1"\nstart = E\n' % (operand, '\n'.join(rows))

class Stop(Exception): pass

def model(table, text, pos0=0):
    """returns (tree,end) or None. tree: ('I',l,op,r)/('P',op,r)/('Q',l,op)/'1' """
    prefix=[(lvl,ops) for lvl,(k,ops) in enumerate(table) if k=='prefix']
    postfix=[(lvl,ops) for lvl,(k,ops) in enumerate(table) if k=='postfix']
    infix=[(lvl,k,ops) for lvl,(k,ops) in enumerate(table) if k in('left','right','infix')]
    hasmix=any(k=='mixfix' for k,_ in table)
    def row_match(ops,p):           # ordered choice within a row
        for o in ops:
            if text.startswith(o,p): return o
        return None
    def longest(rows,p):            # rows: list of (lvl,[kind],ops) ; longest across rows, first on ties
        best=None
        for r in rows:
            o=row_match(r[-1],p)
            if o is not None and (best is None or len(o)>len(best[1])): best=(r,o)
        return best
    def operand(p):
        cands=[]
        if text.startswith('1',p): cands.append(('1',p+1))
        if hasmix and text.startswith('(',p):
            r=expr(p+1)
            if r and text.startswith(')',r[1]): cands.append((r[0],r[1]+1))
        best=None
        for c in cands:
            if best is None or c[1]>best[1]: best=c
        return best
    def scan(p):
        """flat PEG scan: list of tokens (kind,lvl,assoc,value,endpos) grouped; returns list of groups"""
        groups=[]; pending=None
        while True:
            q=p; pre=[]
            while True:
                m=longest(prefix,q)
                if not m: break
                pre.append(('pre',m[0][0],None,m[1])); q+=len(m[1])
            o=operand(q)
            if not o: break
            q=o[1]; post=[]
            while True:
                m=longest(postfix,q)
                if not m: break
                post.append(('post',m[0][0],None,m[1])); q+=len(m[1])
            groups.append((pending,pre,('opd',o[0]),post,q))
            p=q
            m=longest(infix,p)
            if not m: break
            pending=('inf',m[0][0],m[0][1],m[1]); p+=len(m[1])
        return groups
    def expr(p):
        groups=scan(p)
        if not groups: return None
        # flatten to token list with group boundaries
        toks=[]
        for gi,(pend,pre,opd,post,end) in enumerate(groups):
            if pend: toks.append(pend+(gi,))
            for t in pre: toks.append(t+(gi,))
            toks.append(opd+(gi,))
            for t in post: toks.append(t+(gi,))
        i=[0]; consumed_group=[-1]
        stop=[False]
        INF=10**6
        def top_infix_level(tree):
            return tree[4] if isinstance(tree,tuple) and tree[0]=='I' else None
        def nud(maxl):
            t=toks[i[0]]
            if t[0]=='pre':
                i[0]+=1
                r=pexpr(t[1])
                return ('P',t[3],r)
            assert t[0]=='opd'
            i[0]+=1; consumed_group[0]=t[-1]
            return t[1]
        def pexpr(maxl):
            left=nud(maxl)
            while i[0]<len(toks) and not stop[0]:
                t=toks[i[0]]
                if t[0]=='post':
                    if t[1]>maxl: break
                    i[0]+=1; left=('Q',left,t[3]); continue
                if t[0]=='inf':
                    lvl,assoc=t[1],t[2]
                    if lvl>maxl: break
                    if assoc=='infix' and top_infix_level(left)==lvl:
                        stop[0]=True; break
                    i[0]+=1
                    right=pexpr(lvl if assoc=='right' else lvl-1)
                    left=('I',left,t[3],right,lvl)
                    continue
                break
            return left
        tree=pexpr(INF)
        end=groups[consumed_group[0]][4]
        def strip(t):
            if isinstance(t,tuple):
                if t[0]=='I': return ('I',strip(t[1]),t[2],strip(t[3]))
                if t[0]=='P': return ('P',t[1],strip(t[2]))
                if t[0]=='Q': return ('Q',strip(t[1]),t[2])
            return t
        return (strip(tree),end)
    return expr(pos0)

def conv(g,r):
    if isinstance(r,g.Infix): return ('I',conv(g,r.left),r.operator,conv(g,r.right))
    if isinstance(r,g.Prefix): return ('P',r.operator,conv(g,r.right))
    if isinstance(r,g.Postfix): return ('Q',conv(g,r.left),r.operator)
    return r

class Timeout(Exception): pass
def _alarm(*a): raise Timeout()
def init(): signal.signal(signal.SIGALRM,_alarm)

def inputs(sigma,n):
    for L in range(n+1):
        for t in itertools.product(sigma,repeat=L): yield ''.join(t)

def check(job):
    table,lit=job
    from sourcer import Grammar
    desc=render(table,lit)
    try: g=Grammar(desc)
    except Exception as ex: return [('COMPILE',desc,type(ex).__name__+str(ex)[:80])]
    hasmix=any(k=='mixfix' for k,_ in table)
    INP = list(inputs('1+-()',5)) if hasmix else list(inputs('1+-',6))
    bad=[]
    for t in INP:
        m=model(table,t)
        exp=('FAIL',) if m is None else ('OK',m[0],m[1])
        signal.setitimer(signal.ITIMER_REAL,2.0)
        try:
            try: r=g.parse(t); got=('OK',conv(g,r),len(t))
            except g.PartialParseError as x: got=('OK',conv(g,x.partial_result),x.last_position.index)
            except g.ParseError: got=('FAIL',)
            except Timeout: got=('TIMEOUT',)
            except Exception as x: got=('EXC',type(x).__name__,str(x)[:60])
        finally: signal.setitimer(signal.ITIMER_REAL,0)
        if got!=exp:
            bad.append((desc.replace('\n',' ; '),t,exp,got))
            if len(bad)>=2: break
    return bad

if __name__=='__main__':
    nrows=int(sys.argv[1])
    tables=[t for n in range(1,nrows+1) for t in itertools.product(ROWTYPES,repeat=n)]
    jobs=[(t,lit) for t in tables for lit in ((False,) if os.environ.get('NOLIT') else (False,True))]
    print('jobs',len(jobs))
    t0=time.time()
    with Pool(16,initializer=init) as p: res=p.map(check,jobs,chunksize=4)
    print('time',time.time()-t0,'bad',sum(1 for r in res if r))
    shown=0
    for j,r in zip(jobs,res):
        if r and shown<int(sys.argv[2]) :
            print(r[0]); shown+=1
