import time
from sourcer import Grammar
t=time.time()
for i in range(50):
    g = Grammar('start = "a"{2} | "ab"')
print('single small grammar', (time.time()-t)/50)
import random
rules = '\n'.join(f'R{i} = ("a" | "b"{{2}})* >> ["a", Opt("b")] << ExpectNot("c")' for i in range(200))
t=time.time()
g = Grammar(rules)
dt=time.time()-t
print('200-rule grammar', dt, dt/200)
t=time.time()
n=0
for i in range(200):
    r=getattr(g,f'R{i}')
    for s in ['', 'a','ab','abb','bba','bbab','c','abc']:
        try: r.parse(s)
        except g.InputError: pass
        n+=1
print('parse each', (time.time()-t)/n)
# time breakdown
from sourcer import grammar as G, translator
t=time.time(); p=G._parse_grammar(rules); print('parse desc', time.time()-t)
t=time.time(); b=translator.generate_source_code('doc', p); print('gen', time.time()-t)
t=time.time(); src=b.source_code(); print('render', time.time()-t, len(src))
t=time.time(); c=compile(src,'<x>','exec',optimize=2); print('pycompile', time.time()-t)
